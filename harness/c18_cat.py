"""C18 direct oracle over the npcatalog call templates (every NumPy function that dispatches
through `__array_function__`, every ndarray method): operands are VIEWS of guard buffers;
valid inputs and one injected fault per run.  Never consults the model.

A case is (template id, dtype key, shape class, data seed, fault, position).  The bare-NumPy run of
the same call says which operands NumPy itself modifies (in-place functions such as `np.put`,
`ndarray.sort`, `out=` buffers): those are the call's *targets*; everything else is an input.

  * inputs may never change — numbers, dtype, unit, registry, name, the bytes around them, what the
    base array of the view reads — whether the call returns or raises;
  * when the call on quantities raises, the targets must be unchanged too (numbers and unit).

Imported by harness/c18.py (worker processes) and by replay snippets."""
import copy
import warnings

import numpy as np

import c18_lib as L
import npcatalog as C
import c18_templates  # noqa: F401  (registers the C18-specific sequence-of-quantities templates)

UNITS = ("m", "kg", "K")
# every second value operand carries a commensurable but differently scaled unit, so that a handler
# which converts an argument IN PLACE (instead of taking a converted copy) shows up as a changed input
ALT = {"m": "cm", "kg": "g", "K": "R"}
FAULT_UNIT = "s"
# functions/methods whose FIRST operand is modified by design (NumPy's contract), even when a
# particular instantiation happens not to change a byte (empty arrays, refused calls)
STATIC_INPLACE = {"numpy.put", "numpy.place", "numpy.putmask", "numpy.copyto", "numpy.fill_diagonal", "numpy.put_along_axis",
                  "ndarray.sort", "ndarray.partition", "ndarray.fill", "ndarray.put", "ndarray.itemset", "ndarray.resize",
                  "ndarray.setfield", "ndarray.byteswap", "ndarray.__setitem__", "ndarray.setflags"}
FAULTS = ("valid", "incommensurable", "non-dimensionless", "bad-shape", "bad-kwarg", "int-out", "readonly-out")


class FusedOp(C.Op):
    """ONE array operand standing for a sequence of quantities of the original call (`fuse_call`)"""

    __slots__ = ()


def fuse_call(call, kind="f"):
    """the call with every list/tuple of >= 2 value operands of one group and one shape replaced by ONE array operand
    (bottom-up, so [[a, b], [c, d]] becomes one 2x2 array): the call form `range=[0, 5] * km` instead of
    `range=(0 * km, 5 * km)`.  kind 'i': the fused numbers as int64 (None when they are not integral).
    None when the call has no such sequence."""
    hit = {"n": 0, "bad": False}

    def walk(x):
        if isinstance(x, (list, tuple)):
            ys = [walk(y) for y in x]
            if (len(ys) >= 2 and all(isinstance(y, C.Op) and y.role == "value" for y in ys)
                    and len({(y.group, y.dimless, np.shape(y.data)) for y in ys}) == 1):
                d = np.stack([np.asarray(y.data) for y in ys])
                if d.dtype.kind not in "fiu":
                    return type(x)(ys)
                if kind == "i":
                    if d.dtype.kind == "f":
                        if not np.all(d == np.round(d)):
                            hit["bad"] = True
                        d = d.astype(np.int64)
                else:
                    d = d.astype(np.float64) if d.dtype.kind != "f" else d
                hit["n"] += 1
                return FusedOp(d, "value", ys[0].group, ys[0].dimless)
            return type(x)(ys) if isinstance(x, tuple) else ys
        if isinstance(x, dict):
            return {k: walk(v) for k, v in x.items()}
        return x

    c = copy.copy(call)
    c.args = [walk(a) for a in copy.deepcopy(call.args)]
    c.kwargs = {k: walk(v) for k, v in copy.deepcopy(call.kwargs).items()}
    if hit["n"] == 0 or hit["bad"]:
        return None
    return c


def _wrap_views(units, out_mode, held, fault=None, pos=None, alt=False):
    import unyt

    counter = {"i": -1}

    def wrap(op):
        counter["i"] += 1
        i = counter["i"]
        d = op.data
        if op.role == "out":
            if out_mode == "bare":
                H = L.hold(np.asarray(d), None)
            else:
                H = L.hold(np.asarray(d), "A", quantity_ok=False)
            if fault == "readonly-out":
                H.obj.flags.writeable = False
            held.append((op, H))
            return H.obj
        uname = "dimensionless" if op.dimless else units[op.group % len(units)]
        if alt and (i % 2 == 1 or isinstance(op, FusedOp)) and uname in ALT:
            uname = ALT[uname]
        if fault in ("incommensurable", "non-dimensionless") and i == pos:
            uname = FAULT_UNIT
        if isinstance(d, np.ndarray):
            H = L.hold(d, uname, strided=(d.ndim >= 1 and d.shape[-1] > 1 and (i % 2 == 1)))
        else:
            H = L.Held(unyt.unyt_quantity(d, uname), kind="py")
        held.append((op, H))
        return H.obj

    return wrap


def _bare_views(held):
    def wrap(op):
        d = op.data
        if isinstance(d, np.ndarray):
            H = L.hold(d, None)
            held.append((op, H))
            return H.obj
        held.append((op, L.Held(d, kind="py")))
        return d

    return wrap


def inject(call, fault, pos, rng_seed):
    """a copy of the call with the fault injected (None when the fault does not apply)"""
    ops = call.ops()
    if fault in ("valid",):
        return call
    c = copy.copy(call)
    c.args = copy.deepcopy(call.args)
    c.kwargs = copy.deepcopy(call.kwargs)
    ops2 = c.ops()
    if fault == "bad-kwarg":
        c.kwargs["bogus_kw"] = 1
        return c
    if fault in ("int-out", "readonly-out"):
        outs = [o for o in ops2 if o.role == "out"]
        if not outs:
            return None
        if fault == "int-out":
            for o in outs:
                if np.asarray(o.data).dtype.kind not in "fc":
                    return None
                o.data = np.zeros(np.shape(o.data), dtype=np.int64)
        return c
    if pos is None or pos >= len(ops2):
        return None
    op = ops2[pos]
    if op.role != "value":
        return None
    if fault == "incommensurable":
        return c if not op.dimless else None
    if fault == "non-dimensionless":
        return c if op.dimless else None
    if fault == "bad-shape":
        d = op.data
        if not isinstance(d, np.ndarray) or d.ndim == 0:
            return None
        shape = tuple(s + 2 for s in d.shape)
        op.data = np.resize(d, shape).astype(d.dtype)
        return c
    return None


LAST_OBS = []   # [(handler routine, parameter, changed?)] of the last run_case on quantities (correspondence with c18.af.*)
_BIND = {}


def _bind_params(t, args, kwargs, held):
    """(name of unyt's __array_function__ handler, {index of held operand: parameter of the handler it is bound to});
    None for methods, custom invocations, functions without a handler, calls the signature refuses"""
    import inspect

    import unyt._array_functions as AF

    if t.is_method or t._invoke is not None:
        return None
    h = AF._HANDLED_FUNCTIONS.get(C.resolve(t.func))
    if h is None:
        return None
    try:
        ba = inspect.signature(h).bind(*args, **kwargs)
    except TypeError:
        return None
    ids = {id(H.obj): i for i, (_op, H) in enumerate(held)}
    out = {}

    def walk(x, par):
        if id(x) in ids:
            out[ids[id(x)]] = par
        elif isinstance(x, (list, tuple)):
            for y in x:
                walk(y, par)
        elif isinstance(x, dict):
            for y in x.values():
                walk(y, par)

    for par, val in ba.arguments.items():
        walk(val, par)
    return h.__name__, out


def _run(t, call, wrap, held, bind=False):
    args, kwargs, _objs = call.materialize(wrap)
    _BIND["last"] = None
    if bind:
        try:
            _BIND["last"] = _bind_params(t, args, kwargs, held)
        except Exception:  # noqa: BLE001
            pass
    snaps0 = [L.snap(H.obj, H) for _op, H in held]
    with warnings.catch_warnings():
        warnings.simplefilter("ignore")
        with np.errstate(all="ignore"):
            try:
                t.invoke(args, kwargs)
                exc = None
            except RecursionError as e:
                exc = e
            except Exception as e:  # noqa: BLE001
                exc = e
    snaps1 = [L.snap(H.obj, H) for _op, H in held]
    return exc, snaps0, snaps1


def run_case(tid, dk, sc, seed, fault="valid", pos=None, out_mode="unyt", alt=False, fuse=None):
    """(status, findings): findings = [(key, what)]; fuse in (None, 'f', 'i'): sequences of quantities passed as ONE array"""
    t = [x for x in C.templates() if x.tid == tid][0]
    try:
        call0 = t.instantiate(dk, sc, seed)
    except Exception as e:  # noqa: BLE001
        return "skip-build", []
    if fuse:
        call0 = fuse_call(call0, fuse)
        if call0 is None:
            return "skip-fuse", []
    call = inject(call0, fault, pos, seed)
    if call is None:
        return "skip-fault", []
    # the bare run: which operands does NumPy itself write to?
    bheld = []
    try:
        bexc, b0, b1 = _run(t, call, _bare_views(bheld), bheld)
    except Exception:  # noqa: BLE001
        return "skip-bare", []
    np_mut = {i for i, (x, y) in enumerate(zip(b0, b1)) if L.delta(x, y)}
    roles = [op.role for op, _ in bheld]
    func = C.canonical_func(t)
    if func in STATIC_INPLACE or (func.startswith("ndarray.__i") and func.endswith("__") and func not in ("ndarray.__index__", "ndarray.__int__", "ndarray.__invert__", "ndarray.__iter__")):
        np_mut.add(0)
    if fault != "valid":
        # what NumPy writes to on the valid form of the same call is a target of the faulty one too
        vheld = []
        try:
            _e, v0, v1 = _run(t, call0, _bare_views(vheld), vheld)
            if len(v0) == len(b0):
                np_mut |= {i for i, (x, y) in enumerate(zip(v0, v1)) if L.delta(x, y)}
        except Exception:  # noqa: BLE001
            pass
    held = []
    del LAST_OBS[:]
    try:
        exc, s0, s1 = _run(t, call, _wrap_views(UNITS, out_mode, held, fault, pos, alt), held, bind=True)
    except Exception as e:  # noqa: BLE001
        return "skip-wrap", []
    if len(s0) != len(b0):
        return "skip-arity", []
    bound = _BIND.get("last")
    if bound is not None:
        hname, pmap = bound
        for i, par in pmap.items():
            dd = [k for k in L.delta(s0[i], s1[i]) if k in ("numbers", "dtype", "base", "guard", "shape")]
            LAST_OBS.append((hname, par, bool(dd)))
    out = []
    raised = L.exc_class(exc) if exc is not None else None
    for i, (x, y) in enumerate(zip(s0, s1)):
        d = L.delta(x, y)
        target = roles[i] == "out" or i in np_mut
        if not target:
            if d:
                out.append((f"arrayfunc|{func}|input-changed|{'+'.join(d)}",
                            f"{t.func}({call.describe()}) [{fault}]: operand {i} (an input) changed: {d}; raised: {raised}"))
        else:
            if "guard" in d:
                out.append((f"arrayfunc|{func}|target|guard", f"{t.func}({call.describe()}): bytes outside operand {i} were written"))
            if raised is not None and bexc is not None and i in np_mut:
                continue        # NumPy itself wrote before raising on the bare data
            if raised is not None:
                bad = [k for k in d if k in ("numbers", "unit", "dtype", "shape", "registry")]
                if "dtype" in bad and np.dtype(x["dtype"]).kind in "iu":
                    out.append(("arrayfunc|out=|int-retyped-on-failure",
                                f"{t.func}({call.describe()}): raised {raised}, integer operand {i} left re-typed to {y.get('dtype')}"))
                    bad = [k for k in bad if k != "dtype"]
                if bad:
                    out.append((f"arrayfunc|{func}|raised-{raised}|target-changed|{'+'.join(bad)}",
                                f"{t.func}({call.describe()}) [{fault}]: raised {raised} and left operand {i} ({roles[i]}) changed: {bad}"))
    status = ("raise" if raised else "ok") + ("/np-raise" if bexc is not None else "")
    return status, out


def replay_snippet(tid, dk, sc, seed, fault, pos, out_mode, alt, key, harness_dir, fuse=None):
    return (
        "import sys, warnings\n"
        "warnings.simplefilter('ignore')\n"
        f"sys.path.insert(0, {harness_dir!r})\n"
        "import numpy as np\n"
        "np.seterr(all='ignore')\n"
        "import c18_cat as K\n"
        f"st, found = K.run_case({tid!r}, {dk!r}, {sc!r}, {seed!r}, {fault!r}, {pos!r}, {out_mode!r}, {alt!r}, {fuse!r})\n"
        "print('status:', st, '\\nverdict:', found)\n"
        f"assert {key!r} not in [k for k, _ in found], found\n"
    )


def sweep(job):
    """one worker: (template index slice, data seed, which faults, sampling seed, fraction, alt units)"""
    import random

    lo, hi, dseed, faults, sseed, frac, alt = job
    warnings.simplefilter("ignore")
    np.seterr(all="ignore")
    ts = C.templates()[lo:hi]
    stats, fails, cases = {}, {}, []
    obs = {}

    def note():
        for h, par, ch in LAST_OBS:
            e = obs.setdefault(h + "\t" + par, [0, 0])
            e[0] += 1
            e[1] += 1 if ch else 0

    rng = random.Random(f"c18cat:{sseed}:{lo}")
    for t in ts:
        for sc in t.shapes:
            for dk in t.dtypes:
                try:
                    call0 = t.instantiate(dk, sc, dseed)
                    nops = len(call0.ops())
                except Exception:  # noqa: BLE001
                    stats["skip-build"] = stats.get("skip-build", 0) + 1
                    continue
                plan = []
                for f in faults:
                    if f in ("valid", "bad-kwarg", "int-out", "readonly-out"):
                        plan.append((f, None))
                    else:
                        plan += [(f, p) for p in range(nops)]
                for f, p in plan:
                    if f != "valid" and frac < 1.0 and rng.random() > frac:
                        continue
                    oms = ("unyt", "bare") if (t.out_form and f in ("valid", "int-out")) else ("unyt",)
                    for om in oms:
                        st, found = run_case(t.tid, dk, sc, dseed, f, p, om, alt)
                        note()
                        k = f"{f}:{st}"
                        stats[k] = stats.get(k, 0) + 1
                        if not st.startswith("skip"):
                            cases.append((t.tid, sc, dk, f, p, om, alt))
                        for key, what in found:
                            if key not in fails:
                                fails[key] = dict(tid=t.tid, dk=dk, sc=sc, seed=dseed, fault=f, pos=p, om=om, alt=alt, what=what, fuse=None)
                # the same call with its sequences of quantities passed as ONE array (float and, when integral, int64 numbers),
                # in the same unit and in a differently scaled commensurable unit
                if "valid" in faults and not alt:
                    for fz in ("f", "i"):
                        if fuse_call(call0, fz) is None:
                            continue
                        for a2 in (False, True):
                            st, found = run_case(t.tid, dk, sc, dseed, "valid", None, "unyt", a2, fz)
                            note()
                            k = f"fused-{fz}:{st}"
                            stats[k] = stats.get(k, 0) + 1
                            if not st.startswith("skip"):
                                cases.append((t.tid, sc, dk, "valid", None, "unyt", a2, "fused-" + fz))
                            for key, what in found:
                                if key not in fails:
                                    fails[key] = dict(tid=t.tid, dk=dk, sc=sc, seed=dseed, fault="valid", pos=None, om="unyt", alt=a2, what=what, fuse=fz)
    return dict(stats=stats, fails=fails, cases=cases, obs=obs)
