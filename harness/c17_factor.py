"""C17 — input class "Python type of the conversion factor" (called from harness/c17.py:_sweep).

The factor of a conversion is `old.base_value / new.base_value`.  The stock unit table holds Python
floats, one Python int and NumPy float64 scalars (Planck units, the bel family); a NumPy scalar is a
*strong* scalar under NEP 50 (`float32_array * np.float64(x)` is float64), a Python float is weak.
Every unit whose base value is not a Python float — found by scanning the LIVE table, nothing is
listed by hand — is converted to and from its base equivalent on every route, and every unit system
is used as an `in_base` / `convert_to_base` target from plain SI units:

  * direct oracle (no model): result dtype = float of the same item size for integers, unchanged for
    float/complex; copy and in-place routes agree on dtype and values; values = exact rational product
    with the library's own factor rounded to the required dtype (the magnitude of the Planck constants
    is C15's subject, the rounding/truncation is this property's);
  * correspondence: `c17.fbasekind` for EVERY unit of the table, `c17.fkind` (type of the live
    `get_conversion_factor` result) on same-dimension pairs, `c17.froute` (dtype per factor kind) for every
    call, `c17.fvalue` bit-for-bit (the product is evaluated in the promoted dtype: double rounding).
"""
from fractions import Fraction

import numpy as np

import core


def base_kind(v):
    if type(v) is float:
        return "pyfloat"
    if type(v) is int:
        return "pyint"
    if isinstance(v, np.floating):
        return f"npfloat{np.dtype(type(v)).itemsize}"
    return "other:" + type(v).__name__


def factor_sweep(H, chk, tier, universe, snippet, ask):
    """H = the harness/c17 module (Run, arr_setup, expected_dtype, …)"""
    from unyt import Unit
    from unyt.unit_registry import default_unit_registry
    from unyt.unit_systems import unit_system_registry

    quick = tier == "quick"
    rng = chk.rng
    lut = default_unit_registry.lut
    kinds = {sym: base_kind(v[0]) for sym, v in lut.items()}
    for sym in sorted(kinds):
        ask(["c17.fbasekind", sym], ("fkind", "basekind", sym, kinds[sym]))
        chk.count("factor:basekind:" + kinds[sym])
    special = sorted(s for s, k in kinds.items() if k != "pyfloat")
    if any(k.startswith("other:") for k in kinds.values()):
        chk.disagree("c17.fbasekind", "base value of a type outside the model: " + str(sorted({k for k in kinds.values() if k.startswith('other:')})))

    # ---- the pairs: every special unit <-> its mks base equivalent
    pairs = []  # (from, to, forward?)
    for sym in special:
        try:
            u = Unit(sym)
            if u.base_offset != 0:
                continue
            tgt = str(u.get_base_equivalent("mks"))
        except Exception:  # noqa: BLE001
            continue
        if tgt in ("dimensionless", sym):
            continue
        pairs.append((sym, tgt, True))
        pairs.append((tgt, sym, False))
    # typing of the factor on same-dimension pairs of atomic units (special x special included)
    by_dim = {}
    for sym in sorted(kinds):
        by_dim.setdefault(str(lut[sym][1]), []).append(sym)
    tpairs = [(a, b) for a, b, _ in pairs]
    for dim, syms in sorted(by_dim.items()):
        sp = [s for s in syms if s in special]
        for a in sp:
            for b in sp[:3]:
                tpairs.append((a, b))
        if len(syms) > 1:
            for _ in range(1 if quick else 4):
                tpairs.append((rng.choice(syms), rng.choice(syms)))
    for a, b in tpairs:
        try:
            ua, ub = Unit(a), Unit(b)
            if ua.base_offset != 0 or ub.base_offset != 0 or str(ua) != a or str(ub) != b:
                continue
            f, _o = ua.get_conversion_factor(ub, np.dtype("f8"))
        except Exception:  # noqa: BLE001
            continue
        ask(["c17.fkind", a, b], ("fkind", "factor", f"{a}->{b}", base_kind(f)))
        chk.count("factor:kind:" + base_kind(f))

    # which base value a Unit object carries: bare symbols keep the table entry, parsed compound
    # expressions and units built by arithmetic / copy are Python floats (`UnitShape`)
    plain_by_dim = {}
    for sym in sorted(kinds):
        if kinds[sym] == "pyfloat" and lut[sym][2] == 0:
            plain_by_dim.setdefault(str(lut[sym][1]), sym)
    for sym in special + ["m", "s", "km"]:
        try:
            u = Unit(sym)
            if u.base_offset != 0 or str(u) != sym:
                continue
            builds = [("s:" + sym, u), ("s:" + sym, u.copy())]  # a copy of a bare symbol keeps the table entry
            if str(u.dimensions) != "(logarithmic)":
                builds += [("other", o_) for o_ in (Unit(f"{sym}*s"), Unit(f"1/{sym}") ** -1, u * Unit("s") / Unit("s"), (u * u) ** 0.5, Unit(f"{sym}**2"))]
        except Exception:  # noqa: BLE001
            continue
        for tag, ub in builds:
            ask(["c17.fshape", tag, "other"], ("fkind", "unit-shape", f"{sym}:{tag}:{ub}", base_kind(ub.base_value / 1.0)))
            chk.count("factor:shape:" + tag.split(":")[0])
            p_ = plain_by_dim.get(str(ub.dimensions))
            if p_ is not None and ub.dimensions == Unit(p_).dimensions:
                try:
                    f, _o = ub.get_conversion_factor(Unit(p_), np.dtype("f8"))
                    f2, _o = Unit(p_).get_conversion_factor(ub, np.dtype("f8"))
                except Exception:  # noqa: BLE001
                    continue
                ask(["c17.fshape", tag, "s:" + p_], ("fkind", "unit-shape-factor", f"{ub}->{p_}", base_kind(f)))
                ask(["c17.fshape", "s:" + p_, tag], ("fkind", "unit-shape-factor", f"{p_}->{ub}", base_kind(f2)))

    scope = [d for d in universe if d.kind != "b"]
    narrow = [d for d in scope if (d.kind, d.itemsize) in (("f", 2), ("f", 4), ("c", 8), ("i", 2), ("i", 4), ("u", 1), ("f", 8))]

    def values(d, fwd_factor):
        if d.kind in "iu":
            return [1, 2, 3, 7, 10, 100]
        if d.kind == "c":
            return [(1.0, 0.5), (2.0, -1.25), (3.0, 7.0), (100.5, 0.0)]
        return [1.0, 2.0, 3.0, 1.25, 100.5, 0.5]

    def one(d, isq, a, name, kclass, call, fq, fk, vals, mroute, oq=Fraction(0), ok=None):
        sfx = f"|offset={ok}" if ok else ""
        setup = H.arr_setup(vals[:1] if isq else vals, d, a, isq)
        R = H.Run(setup, call)
        shape = "quantity" if isq else "array"
        chk.case(("factor", name, d.name, isq, a), {"route": name, "dtype": d.name, "unit": a, "factor": fk} if len(chk.samples) < 12 else None)
        chk.count(f"factor:route:{kclass}:{fk}")
        ed = H.expected_dtype(d)
        cls = H.dclass(d)
        if R.ok:
            if type(R.r) is float:
                obs = ("ok", "pyfloat", 8)
            elif type(R.r) is complex:
                obs = ("ok", "pycomplex", 16)
            else:
                rd = np.asarray(R.r).dtype
                obs = ("ok", rd.kind, rd.itemsize)
        else:
            obs = ("err", H.exc_class(R.exc))
        if fk.startswith("npfloat") or fk == "pyfloat":
            ask(["c17.foroute" if ok else "c17.froute", fk, mroute, d.kind, d.itemsize, 1 if isq else 0], ("route", name, d.name, shape, a, obs))
        if not R.ok:
            if not H.may_raise(d):
                chk.fail(f"dtype|{kclass}|{cls}|{H.exc_class(R.exc)}{sfx}", f"{name} on {d.name} {shape} ({a}, factor {fk}) raised {H.exc_class(R.exc)}; {ed.name} data required",
                         {"python": snippet(setup, call + "assert True\n"), "dtype": d.name, "route": name, "error": repr(R.exc)[:200]})
            return None
        if type(R.r) in (float, complex):
            okq = kclass == "to_value" and isq and ((type(R.r) is float and ed.kind == "f" and ed.itemsize <= 8) or (type(R.r) is complex and ed.kind == "c" and ed.itemsize <= 16))
            if not okq:
                return None  # the extended-precision residual is reported by the main sweep's keys
            got = np.asarray(R.r)
            size = H.comp_size(ed)
        else:
            got = np.asarray(R.r)
            if got.dtype != ed:
                chk.fail(f"dtype|{kclass}|{cls}|{got.dtype.name}{sfx}", f"{name} on {d.name} {shape} in {a} (conversion factor of type {fk}{', offset of type ' + ok if ok else ''}) returned {got.dtype.name}; {ed.name} required",
                         {"python": snippet(setup, call + f"assert np.asarray(r).dtype == np.dtype('{ed.name}'), np.asarray(r).dtype\n"),
                          "dtype": d.name, "route": name, "got": got.dtype.name, "want": ed.name, "factor_type": fk})
            if got.dtype.kind not in "fc":
                return None
            size = min(H.comp_size(got.dtype), H.comp_size(ed))
        # values: exact product with the (binary64) factor, rounded to the required dtype
        if size > 8:
            size = 8
        xin = H.elems(R.x_before)
        g = H.elems(got)
        want = [(re * fq - oq, im * fq) for re, im in xin]
        sel = [i for i in range(len(want)) if H.in_range(fq, size) and H.in_range(oq, size) and g[i] is not None and all(H.in_range(c, size) for c in want[i]) and H.in_range(xin[i][0], size)]
        if len(sel) < len(want):
            chk.count("value-out-of-float-range-skipped", len(want) - len(sel))
        if sel:
            chk.count("value-checked", len(sel))
            scales = [abs(xin[i][0] * fq) + abs(xin[i][1] * fq) + abs(oq) for i in sel]
            if not H.value_check([g[i] for i in sel], [want[i] for i in sel], size, scales):
                w = [want[i] for i in sel]
                wsrc = "[" + ", ".join(f"(Fraction({p.numerator},{p.denominator}), Fraction({q.numerator},{q.denominator}))" for p, q in w) + "]"
                ssrc = "[" + ", ".join(f"Fraction({p.numerator},{p.denominator})" for p in scales) + "]"
                chk.fail(f"value|{kclass}|{cls}{sfx}", f"{name} on {d.name} {shape} ({a}, factor type {fk}{sfx}): values are not the exact conversion rounded to {ed.name}",
                         {"python": snippet(setup, call + f"sel = {sel!r}\nrr = np.atleast_1d(np.asarray(r)).ravel()[sel]\nassert _close(rr, {wsrc}, {H.VPREC[size]}, {ssrc}), rr\n"),
                          "dtype": d.name, "route": name, "got": str(got)})
        return R

    def probe_factor(a, b):
        ua, ub = Unit(a), Unit(b)
        f, o = ua.get_conversion_factor(ub, np.dtype("f8"))
        return f, o

    n_full = 2 if quick else 6
    for idx, (a, b, fwd) in enumerate(pairs):
        try:
            f, o = probe_factor(a, b)
        except Exception:  # noqa: BLE001
            continue
        if o:
            continue
        fk = base_kind(f)
        fq = Fraction(float(f))
        # the first few pairs over the whole dtype scope, the others on the narrow dtypes
        dts = scope if idx < 2 * n_full else narrow
        if quick and idx >= 2 * n_full:
            dts = [d for d in narrow if (idx // 2 + d.itemsize) % 2 == 0 or d.kind in "fc"]
        for d in dts:
            vals = values(d, f)
            for isq in (False, True):
                if isq and quick and idx >= 2 * n_full and d.kind not in "f":
                    continue
                routes = [("to", "copy", "to", f"r = x.to('{b}')\n"),
                          ("to_value", "to_value", "to_value", f"r = x.to_value('{b}')\n"),
                          ("convert_to_units", "inplace", "convert_to_units", f"x.convert_to_units('{b}'); r = x\n")]
                if not quick or idx < 2 * n_full:
                    routes.append(("in_units", "copy", "in_units", f"r = x.in_units('{b}')\n"))
                if fwd:
                    routes += [("in_base", "in_base", "in_base", "r = x.in_base('mks')\n"),
                               ("convert_to_base", "inplace", "convert_to_base", "x.convert_to_base('mks'); r = x\n")]
                    if not quick or idx < 2 * n_full:
                        routes += [("in_mks", "in_base", "in_base", "r = x.in_mks()\n"),
                                   ("convert_to_mks", "inplace", "convert_to_base", "x.convert_to_mks(); r = x\n")]
                res = {}
                for (name, kclass, mroute, call) in routes:
                    R = one(d, isq, a, name, kclass, call, fq, fk, vals, mroute)
                    if R is not None:
                        res[name] = R
                # copy vs in-place, directly
                for cn, inn in (("to", "convert_to_units"), ("in_base", "convert_to_base")):
                    if cn in res and inn in res and not H.may_raise(d):
                        r1, r2 = np.asarray(res[cn].r), np.asarray(res[inn].r)
                        okv = True
                        size = min(H.comp_size(r1.dtype), H.comp_size(r2.dtype), 8)
                        if r1.dtype == r2.dtype and H.in_range(fq, size):
                            u = Fraction(1, 2 ** H.VPREC[size])
                            for g1, g2 in zip(H.elems(r1), H.elems(r2)):
                                if g1 is None or g2 is None or not all(H.in_range(c, size) for c in g1):
                                    continue
                                if any(abs(p_ - q_) > 12 * u * abs(p_) for p_, q_ in zip(g1, g2)):
                                    okv = False
                        if r1.dtype != r2.dtype or not okv:
                            setup = H.arr_setup(vals[:1] if isq else vals, d, a, isq)
                            c1 = f"r1 = x.to('{b}'); x.convert_to_units('{b}')\n" if cn == "to" else "r1 = x.in_base('mks'); x.convert_to_base('mks')\n"
                            chk.fail(f"agree|copy-inplace|{H.dclass(d)}", f"{cn} and {inn} disagree on {d.name} ({a}->{b}, factor type {fk}): {r1.dtype.name} vs {r2.dtype.name}",
                                     {"python": snippet(setup, c1 + "assert r1.dtype == x.dtype and np.allclose(np.asarray(r1, dtype='c16'), np.asarray(x, dtype='c16'), rtol=1e-2), (r1.dtype, x.dtype)\n"),
                                      "factor_type": fk})
            # bit-exact value path against the model (binary16/32/64), copy / in place / in_base
            if H.comp_size(H.expected_dtype(d)) > 8 or not (fk == "pyfloat" or fk.startswith("npfloat")):
                continue
            vals = values(d, f) + ([0.1, 3.3, 1e-3] if d.kind == "f" else [])
            setup = H.arr_setup(vals, d, a, False)
            todo = [("copy", f"r = x.to('{b}')\n"), ("inplace", f"x.convert_to_units('{b}'); r = x\n")]
            if fwd:
                todo.append(("inbase", "r = x.in_base('mks')\n"))
            for (mr, call) in todo:
                R = H.Run(setup, call)
                if not R.ok:
                    continue
                out = np.asarray(R.r).ravel()
                for v, gq in zip(np.asarray(R.x_before).ravel(), out):
                    e = f"i:{int(v)}" if d.kind in "iu" else (f"r:{core.f2b(float(v))}" if d.kind == "f" else f"c:{core.f2b(float(v.real))}:{core.f2b(float(v.imag))}")
                    gg = (float(gq.real), float(gq.imag)) if out.dtype.kind == "c" else (float(gq), 0.0)
                    ask(["c17.fvalue", mr, fk, d.kind, d.itemsize, e, core.f2b(float(f)), "none"], ("value", mr + ":" + fk, d.name, f"{a}->{b} {v}", out.dtype, gg))

    # ---- every unit system as a base target from plain SI units (planck: strong factors)
    for sysname in sorted(unit_system_registry):
        if not isinstance(sysname, str):
            continue
        for a in ("m", "kg", "s", "K"):
            try:
                tgt = Unit(a).get_base_equivalent(sysname)
                f, o = Unit(a).get_conversion_factor(tgt, np.dtype("f8"))
            except Exception:  # noqa: BLE001
                continue
            if o:
                continue
            fk = base_kind(f)
            if quick and fk == "pyfloat" and a != "m":
                continue
            fq = Fraction(float(f))
            for d in (narrow if quick else scope):
                for isq in ((False,) if quick and fk == "pyfloat" else (False, True)):
                    for (name, kclass, mroute, call) in [
                        ("in_base", "in_base", "in_base", f"r = x.in_base('{sysname}')\n"),
                        ("convert_to_base", "inplace", "convert_to_base", f"x.convert_to_base('{sysname}'); r = x\n"),
                    ]:
                        one(d, isq, a, name, kclass, call, fq, fk, values(d, f), mroute)

    # ---- conversions with a truthy offset (temperatures, lat/lon): the offset has the Python type of the
    # ratio; `np.subtract(ret, offset, ret)` keeps the dtype, `ret = ret - offset` promotes with a strong offset
    offset_units = sorted((s_ for s_, v in lut.items() if v[2] != 0), key=lambda s_: (len(s_), s_))
    if quick:
        offset_units = offset_units[:4] + offset_units[4:][:: max(1, len(offset_units[4:]) // 2)][:2]
    for a in offset_units:
        dim = str(lut[a][1])
        same = [s_ for s_ in by_dim.get(dim, []) if s_ != a]
        tg = [s_ for s_ in same if s_ in special]
        plain = [s_ for s_ in same if s_ not in special and lut[s_][2] == 0]
        try:
            tg.append(str(Unit(a).get_base_equivalent("mks")))
        except Exception:  # noqa: BLE001
            pass
        if plain and not quick:
            tg.append(rng.choice(plain))
        jobs = []
        for b in dict.fromkeys(tg):
            jobs.append((a, b, None))
            jobs.append((b, a, None))
        for sysname in sorted(k for k in unit_system_registry if isinstance(k, str)):
            jobs.append((a, None, sysname))
        for (x0, b, sysname) in jobs:
            try:
                ux = Unit(x0)
                tgt = Unit(b) if b is not None else ux.get_base_equivalent(sysname)
                if str(ux) != x0:
                    continue
                f, o = ux.get_conversion_factor(tgt, np.dtype("f8"))
            except Exception:  # noqa: BLE001
                continue
            if not o:
                continue
            fk, ok = base_kind(f), base_kind(o)
            ask(["c17.foffsetkind", fk], ("fkind", "offset-kind", f"{x0}->{b or sysname}", ok))
            fq, oq = Fraction(float(f)), Fraction(float(o))
            if b is not None:
                routes = [("to", "copy", "to", f"r = x.to('{b}')\n"),
                          ("to_value", "to_value", "to_value", f"r = x.to_value('{b}')\n"),
                          ("convert_to_units", "inplace", "convert_to_units", f"x.convert_to_units('{b}'); r = x\n")]
            else:
                routes = [("in_base", "in_base", "in_base", f"r = x.in_base('{sysname}')\n"),
                          ("convert_to_base", "inplace", "convert_to_base", f"x.convert_to_base('{sysname}'); r = x\n")]
            for d in (narrow if quick else scope):
                vals = values(d, f)
                for isq in (False, True):
                    if isq and quick and d.kind != "f":
                        continue
                    res = {}
                    for (name, kclass, mroute, call) in routes:
                        R = one(d, isq, x0, name, kclass, call, fq, fk, vals, mroute, oq=oq, ok=ok)
                        if R is not None and type(R.r) not in (float, complex):
                            res[kclass] = R
                    cp = "copy" if b is not None else "in_base"
                    if cp in res and "inplace" in res and not H.may_raise(d):
                        r1, r2 = np.asarray(res[cp].r), np.asarray(res["inplace"].r)
                        if r1.dtype != r2.dtype:
                            setup = H.arr_setup(vals[:1] if isq else vals, d, x0, isq)
                            c1 = f"r1 = x.to('{b}'); x.convert_to_units('{b}')\n" if b is not None else f"r1 = x.in_base('{sysname}'); x.convert_to_base('{sysname}')\n"
                            chk.fail(f"agree|copy-inplace|{H.dclass(d)}|offset={ok}", f"{routes[0][0]} and {routes[-1][0]} disagree on the dtype for {d.name} ({x0}->{b or sysname}, offset of type {ok}): {r1.dtype.name} vs {r2.dtype.name}",
                                     {"python": snippet(setup, c1 + "assert r1.dtype == x.dtype, (r1.dtype, x.dtype)\n"), "offset_type": ok})
                # bit-exact value path with the offset step
                if isinstance(d, np.dtype) and H.comp_size(H.expected_dtype(d)) <= 8 and fk != "pyint":
                    vals2 = values(d, f) + ([0.1, 3.3, 250.0] if d.kind == "f" else [])
                    setup = H.arr_setup(vals2, d, x0, False)
                    for (name, kclass, mroute, call) in routes:
                        if kclass == "to_value":
                            continue
                        R = H.Run(setup, call)
                        if not R.ok:
                            continue
                        out = np.asarray(R.r).ravel()
                        mr = {"copy": "copy", "in_base": "inbase", "inplace": "inplace"}[kclass]
                        for v, gq in zip(np.asarray(R.x_before).ravel(), out):
                            e = f"i:{int(v)}" if d.kind in "iu" else (f"r:{core.f2b(float(v))}" if d.kind == "f" else f"c:{core.f2b(float(v.real))}:{core.f2b(float(v.imag))}")
                            gg = (float(gq.real), float(gq.imag)) if out.dtype.kind == "c" else (float(gq), 0.0)
                            ask(["c17.fovalue", mr, fk, d.kind, d.itemsize, e, core.f2b(float(f)), core.f2b(float(o))], ("value", mr + ":" + fk + ":offset", d.name, f"{x0}->{b or sysname} {v}", out.dtype, gg))
