"""C20 worker: evaluates requests on the REAL library in a child process, one JSON line in, one
JSON line out, so that the parent can enforce a wall-clock limit per request and kill the
process when the parser does not come back (`9**9**9**9`).  Never imports the model.

Request kinds
  {"k": "str",   "s": <text>}                      Unit(text)
  {"k": "bytes", "b": [byte values]}               Unit(bytes)
  {"k": "arith", "prog": [[op, arg], ...]}         a unit built by unit arithmetic
  {"k": "spell", "v": [text, ...]}                 several spellings of one expression
  {"k": "history", "calls": [[kind, arg], ...]}    Unit(...) calls on one new registry (s: text, b: bytes, w: text with
                                                   unit data handed in, c: a registry modification)
Reply: see `describe`.
"""
import json
import math
import os
import resource
import sys
import warnings

warnings.simplefilter("ignore")
REPO = os.environ.get("UNYT_REPO", "/repo")
sys.path.insert(0, REPO)
try:
    resource.setrlimit(resource.RLIMIT_AS, (4 << 30, 4 << 30))
except Exception:  # noqa: BLE001
    pass

import sympy  # noqa: E402
import unyt  # noqa: E402
from unyt import Unit  # noqa: E402
from unyt.exceptions import UnitParseError  # noqa: E402
from unyt._parsing import parse_unyt_expr  # noqa: E402
from unyt._unit_lookup_table import default_unit_symbol_lut as LUT  # noqa: E402
from unyt._unit_lookup_table import inv_name_alternatives as INV  # noqa: E402

assert os.path.abspath(unyt.__file__).startswith(os.path.abspath(REPO) + os.sep), unyt.__file__

from c20_vocab import vocab_category  # noqa: E402


def frac(q):
    return f"{int(q.p)}/{int(q.q)}"


def exact(expr):
    """(coefficient 'p/q', {symbol: 'p/q'}) of a rational monomial, None for anything else"""
    try:
        c, rest = expr.as_coeff_Mul()
        if not (c.is_Rational and c.is_finite):
            return None
        fac = {}
        if rest != 1:
            for b, p in rest.as_powers_dict().items():
                if not isinstance(b, sympy.Symbol) or not p.is_Rational:
                    return None
                if p != 0:
                    fac[b.name] = frac(p)
        return [frac(c), fac]
    except Exception:  # noqa: BLE001
        return None


def unit_kind(u):
    """seed-independent classification of a unit for finding keys"""
    e = u.expr
    if e == 1:
        return "one"
    if e.has(sympy.nan) or e.has(sympy.zoo) or e.has(sympy.oo):
        return "non-finite"
    if any(isinstance(p, sympy.Pow) and p.exp.is_Float for p in sympy.preorder_traversal(e)):
        return "float-exponent"
    if any(isinstance(p, sympy.Pow) and not p.exp.is_Rational for p in sympy.preorder_traversal(e)):
        return "irrational-exponent"
    if any(INV.get(a.name, a.name) != a.name for a in e.atoms(sympy.Symbol)):
        # a symbol the name table itself maps to a different symbol (µm → μm, uB → μB)
        return "non-canonical-symbol"
    if any(isinstance(p, sympy.Pow) and isinstance(p.base, sympy.Symbol) and p.base.name in LUT and LUT[p.base.name][0] < 0
           and not p.exp.is_Integer for p in sympy.preorder_traversal(e)):
        return "negative-scale-root"
    if u.base_offset != 0 and not isinstance(e, sympy.Symbol):
        return "offset-compound"
    if isinstance(e, sympy.Symbol) and e.name in LUT and float(LUT[e.name][2]) != float(u.base_offset):
        return "offset-dropped-symbol"
    if isinstance(e, sympy.Symbol):
        return "symbol:" + e.name if e.name in LUT else "symbol:prefixed-or-custom"
    if any(isinstance(p, sympy.Pow) and p.exp.is_Rational and (abs(int(p.exp.p)) > 10**4 or int(p.exp.q) > 10**4) for p in sympy.preorder_traversal(e)):
        # exponents only unit ARITHMETIC produces (roots of roots, sums of co-prime roots); a class of its own so that
        # a defect there cannot hide behind (or be hidden by) a finding about ordinary compound units
        return "long-exponent"
    return "compound"


def same_float(a, b):
    if a == b or (math.isnan(a) and math.isnan(b)):
        return True
    return math.isclose(a, b, rel_tol=1e-12)


def coeff_free(expr):
    """the expression carries no numeric coefficient (rational, float or irrational)"""
    return expr == 1 or not any(f.is_number for f in sympy.Mul.make_args(expr))


def range_ok(u):
    """every partial product of the factors' scale powers (in whatever order the parser
    multiplies them), and the total, stay inside the normal double range: outside it the scale of
    a re-parsed unit differs by overflow/underflow of an intermediate product, which "up to
    rounding" does not cover"""
    try:
        c, rest = u.expr.as_coeff_Mul()
        if not (1e-290 < abs(u.base_value) < 1e290 or (u.base_value == 0 and c == 0)):
            return False
        logs = []
        if c != 0:
            logs.append(math.log10(abs(float(c))) if abs(float(c)) not in (0.0, math.inf) else 999.0)
        for b, p in rest.as_powers_dict().items():
            if isinstance(b, sympy.Symbol):
                sc = abs(float(Unit(b, registry=u.registry).base_value))
                if sc > 0:
                    logs.append(float(p) * math.log10(sc))
        return sum(x for x in logs if x > 0) < 290 and sum(x for x in logs if x < 0) > -290
    except Exception:  # noqa: BLE001
        return False


def exact_scale_ok(u, v):
    """the scale the written expression denotes, in 60-digit arithmetic from the table's doubles:
    True iff the RE-READ unit `v` carries it to 1e-12 while the arithmetic-built `u` is within the
    1e-9 of Unit.__eq__ — the two then differ only by rounding the arithmetic accumulated (long chains
    such as x**(1/999983) followed by **(999983/101) amplify it past any per-step budget), which
    "same scale up to rounding" covers; the reference never consults unyt's arithmetic"""
    try:
        import mpmath
        with mpmath.workdps(60):
            c, rest = u.expr.as_coeff_Mul()
            ref = mpmath.mpf(c.p) / mpmath.mpf(c.q) if c.is_Rational else mpmath.mpf(float(c))
            for b, p in rest.as_powers_dict().items():
                if not (isinstance(b, sympy.Symbol) and p.is_Rational):
                    return False
                ref *= mpmath.mpf(float(Unit(b, registry=u.registry).base_value)) ** (mpmath.mpf(p.p) / mpmath.mpf(p.q))
            if ref == 0:
                return False
            return bool(abs(mpmath.mpf(float(v.base_value)) - ref) <= abs(ref) * mpmath.mpf("1e-12")
                        and abs(mpmath.mpf(float(u.base_value)) - ref) <= abs(ref) * mpmath.mpf("1e-9"))
    except Exception:  # noqa: BLE001
        return False


def reparse(u, text, tol=1e-12):
    """'same' or a description of how Unit(text) fails to denote `u`; `tol`: relative rounding the
    arithmetic that built `u` may have accumulated in base_value (None: beyond any fixed tolerance,
    scale and == are then not compared — "up to rounding" cannot be decided)"""
    try:
        v = Unit(text)
    except BaseException as e:  # noqa: BLE001
        return "raises:" + type(e).__name__
    bad = []
    if v.dimensions != u.dimensions:
        bad.append("dimensions")
    if not same_float(float(v.base_offset), float(u.base_offset)):
        bad.append("offset")
    inrange = range_ok(u) and tol is not None
    if inrange and not (same_float(float(v.base_value), float(u.base_value)) or math.isclose(float(v.base_value), float(u.base_value), rel_tol=tol)
                        or exact_scale_ok(u, v)):
        bad.append("scale")
    if inrange and not math.isnan(u.base_value) and not (v == u):
        bad.append("eq")
    if coeff_free(u.expr):
        if v.expr != u.expr:
            bad.append("expr")
        elif hash(v) != hash(u):
            bad.append("hash")
    return "same" if not bad else "differs:" + "+".join(bad)


def expr_same(u, text):
    """does the text re-parse to the identical expression (None: it does not parse)"""
    try:
        return bool(Unit(text).expr == u.expr)
    except BaseException:  # noqa: BLE001
        return None


def escape_trigger(s):
    """why a non-UnitParseError exception escaped: read off the parsed expression"""
    try:
        e = parse_unyt_expr(s)
    except Exception:  # noqa: BLE001
        return "other"
    cats = set()
    try:
        for p in sympy.preorder_traversal(e):
            if isinstance(p, sympy.Pow):
                b, x = p.args
                if x.free_symbols:
                    cats.add("symbolic-exponent")
                elif not x.is_Rational and x.is_real is not True:
                    cats.add("complex-exponent")
                elif not x.is_Integer:
                    if b.is_Number and b.is_negative:
                        cats.add("negative-number-root")
                    elif isinstance(b, sympy.Symbol) and b.name in LUT and LUT[b.name][0] < 0:
                        cats.add("negative-scale-unit-root")
    except Exception:  # noqa: BLE001
        pass
    for c in ("negative-scale-unit-root", "negative-number-root", "complex-exponent", "symbolic-exponent"):
        if c in cats:
            return c
    return "other"


def describe(u, tol=1e-12):
    """everything the parent needs to know about a successfully built unit"""
    d = {"r": "ok", "kind": unit_kind(u), "expr": exact(u.expr), "coeff1": coeff_free(u.expr)}
    try:
        d["str"] = str(u)
        d["repr"] = repr(u)
    except BaseException as e:  # noqa: BLE001
        d["print_exc"] = type(e).__name__
        return d
    d["rt_str"] = reparse(u, d["str"], tol)
    d["rt_repr"] = reparse(u, d["repr"], tol)
    d["tol"] = tol
    d["xs_str"] = expr_same(u, d["str"])
    d["xs_repr"] = expr_same(u, d["repr"])
    return d


def do_str(s):
    try:
        u = Unit(s)
    except UnitParseError:
        return {"r": "upe"}
    except BaseException as e:  # noqa: BLE001
        if isinstance(s, bytes):
            try:
                trig = escape_trigger(s.decode("utf-8"))
            except UnicodeDecodeError:
                trig = "bytes-decode"
        else:
            trig = escape_trigger(s)
        # where the exception arose: inside parse_unyt_expr (tokenizer / compiler / evaluation of the
        # text) or afterwards (table look-up, unit data)
        phase = "unit-data"
        if isinstance(s, str):
            try:
                parse_unyt_expr(s)
            except UnitParseError:
                phase = "unit-data"
            except BaseException as e2:  # noqa: BLE001
                if type(e2) is type(e):
                    phase = "parse"
        return {"r": "exc", "exc": type(e).__name__, "trig": trig, "phase": phase}
    return describe(u)


def rat(text):
    p, q = text.split("/")
    return sympy.Rational(int(p), int(q))


def do_arith(prog):
    operands = []  # the expression of every unit operand, for the model (c20.arith)
    try:
        u = None
        for op, arg in prog:
            if op == "unit":
                u = Unit(arg)
                operands.append(exact(u.expr))
            elif op == "mul":
                v = Unit(arg)
                operands.append(exact(v.expr))
                u = u * v
            elif op == "div":
                v = Unit(arg)
                operands.append(exact(v.expr))
                u = u / v
            elif op == "rdiv":
                v = Unit(arg)
                operands.append(exact(v.expr))
                u = v / u
            elif op == "mulpow":
                v = Unit(arg[0])
                operands.append(exact(v.expr))
                u = u * v ** rat(arg[1])
            elif op == "divpow":
                v = Unit(arg[0])
                operands.append(exact(v.expr))
                u = u / v ** rat(arg[1])
            elif op == "powq":
                u = u ** rat(arg)
            elif op == "powf":
                u = u ** float(arg)
            elif op == "sqrt":
                u = u ** 0.5
            elif op == "simplify":
                u = Unit(u.expr, registry=u.registry).simplify()
            elif op == "coeff":
                u = Unit(rat(arg) * u.expr, registry=u.registry)
            else:
                raise ValueError(op)
    except BaseException as e:  # noqa: BLE001
        return {"r": "arith-raised", "exc": type(e).__name__}
    # rounding budget of base_value: x**p turns a relative error e into |p|*e (+ one rounding), products add
    err = 0.0
    for op, arg in prog:
        if op in ("powq", "powf", "sqrt"):
            p = 0.5 if op == "sqrt" else float(rat(arg)) if op == "powq" else float(arg)
            err = abs(p) * err + 2.3e-16
        elif op in ("mul", "div", "rdiv", "mulpow", "divpow"):
            err += 4.6e-16
    tol = max(1e-12, 16 * err)
    d = describe(u, tol if tol <= 1e-9 else None)
    d["operands"] = operands
    return d


def unit_facts(u):
    return {"expr": exact(u.expr), "sexpr": str(u.expr), "bv": float(u.base_value), "off": float(u.base_offset), "dims": str(u.dimensions)}


def do_history(calls):
    """a history of Unit(...) calls on ONE new registry.  Per call: whether the object came from the
    registry's cache (identity with the cached object), what it is, and — the direct oracle's
    reference, no model involved — whether it is what the same call gives on a registry that has
    never been used."""
    from unyt import dimensions
    from unyt.unit_registry import UnitRegistry

    def make(kind, arg, reg):
        if kind == "w":
            return Unit(arg, base_value=2.5, dimensions=dimensions.length, registry=reg)
        return Unit(bytes(arg) if kind == "b" else arg, registry=reg)

    reg = UnitRegistry()
    out = []
    nclear = 0
    for kind, arg in calls:
        if kind == "c":
            nclear += 1
            reg.add(f"c20aux{nclear}", 1.0, dimensions.length)
            out.append({"o": "C"})
            continue
        text = arg
        if kind == "b":
            try:
                text = bytes(arg).decode("utf-8")
            except UnicodeDecodeError:
                text = None
        prev = reg._unit_object_cache.get(text) if text is not None else None
        try:
            u = make(kind, arg, reg)
            d = {"o": "H" if (prev is not None and u is prev) else "B"}
            d.update(unit_facts(u))
        except BaseException as e:  # noqa: BLE001
            u = None
            d = {"o": "E", "exc": type(e).__name__}
        try:
            f = make(kind, arg, UnitRegistry())
            fd = {"o": "B"}
            fd.update(unit_facts(f))
        except BaseException as e:  # noqa: BLE001
            fd = {"o": "E", "exc": type(e).__name__}
        bad = []
        if d["o"] == "E" or fd["o"] == "E":
            if (d["o"] == "E") != (fd["o"] == "E") or d.get("exc") != fd.get("exc"):
                bad.append("outcome")
        else:
            if d["sexpr"] != fd["sexpr"]:
                bad.append("expr")
            if d["dims"] != fd["dims"]:
                bad.append("dimensions")
            if not same_float(d["bv"], fd["bv"]):
                bad.append("scale")
            if not same_float(d["off"], fd["off"]):
                bad.append("offset")
        d["vs_fresh"] = "+".join(bad) if bad else "same"
        out.append(d)
    return {"r": "history", "calls": out, "cached": len(reg._unit_object_cache)}


def do_spell(variants):
    """all spellings must be accepted and give equal units (==, same dimensions); the parsed
    expressions are returned for the comparison with the model"""
    out = []
    us = []
    for s in variants:
        try:
            us.append(Unit(s))
            out.append("ok")
        except BaseException as e:  # noqa: BLE001
            us.append(None)
            out.append("raises:" + type(e).__name__)
    ref = us[0]
    verdicts = []
    for u, o in zip(us, out):
        if u is None or ref is None:
            verdicts.append(o)
        elif not (u == ref and ref == u and u.dimensions == ref.dimensions):
            verdicts.append("differs")
        else:
            verdicts.append("same")
    return {"r": "spell", "verdicts": verdicts, "exprs": [exact(u.expr) if u is not None else None for u in us]}


def main():
    out = sys.stdout
    for line in sys.stdin:
        req = json.loads(line)
        k = req["k"]
        if k == "str":
            rep = do_str(req["s"])
            rep["vocab"] = vocab_category(req["s"])
        elif k == "bytes":
            rep = do_str(bytes(req["b"]))
            try:
                rep["vocab"] = vocab_category(bytes(req["b"]).decode("utf-8"))
            except UnicodeDecodeError:
                rep["vocab"] = None
        elif k == "arith":
            rep = do_arith(req["prog"])
        elif k == "history":
            rep = do_history(req["calls"])
        elif k == "spell":
            rep = do_spell(req["v"])
        else:
            rep = {"r": "bad-request"}
        out.write(json.dumps(rep) + "\n")
        out.flush()


if __name__ == "__main__":
    main()
