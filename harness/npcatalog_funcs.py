"""npcatalog templates, part 1: reductions, unary functions, shape manipulation (numpy namespace)."""
import numpy as np

from npcatalog import K, Op, T

ND = ("1d", "2d", "sq")          # has at least one axis, non-empty
ND0 = ("1d", "2d", "sq", "empty")
D2 = ("2d", "sq")


def N(f):
    return "numpy." + f


# ------------------------------------------------------------------ reductions
RED_KEEP = ["all", "any", "amax", "amin", "max", "min", "sum", "prod", "mean", "std", "var",
            "nansum", "nanprod", "nanmean", "nanstd", "nanvar", "nanmax", "nanmin", "median",
            "nanmedian", "ptp", "argmax", "argmin", "nanargmax", "nanargmin", "count_nonzero", "average"]
RED_OUT = set(RED_KEEP) - {"count_nonzero", "average"}
RED_DTYPE = ["sum", "prod", "mean", "std", "var", "nansum", "nanprod", "nanmean", "nanstd", "nanvar",
             "cumsum", "cumprod", "nancumsum", "nancumprod"]
RED_INIT = ["amax", "amin", "max", "min", "sum", "prod", "nansum", "nanprod", "nanmax", "nanmin"]
RED_WHERE = ["all", "any", "mean", "std", "var", "nanmean", "nanstd", "nanvar"]
NANF = {"nansum", "nanprod", "nanmean", "nanstd", "nanvar", "nanmax", "nanmin", "nanmedian", "nanargmax",
        "nanargmin", "nancumsum", "nancumprod"}

for f in RED_KEEP:
    nan = f in NANF
    out = f in RED_OUT
    T(N(f), "pos", lambda c, nan=nan: K(c.A(nan=nan)), auto_out=out)
    T(N(f), "axis", lambda c, nan=nan: K(c.A(nan=nan), axis=c.ax()), shapes=ND0, auto_out=out)
    T(N(f), "axispos", lambda c, nan=nan: K(c.A(nan=nan), c.ax0()), shapes=ND)
    T(N(f), "keepdims", lambda c, nan=nan: K(c.A(nan=nan), axis=c.ax(), keepdims=True), shapes=ND, auto_out=out)
for f in RED_DTYPE:
    T(N(f), "dtype", lambda c: K(c.A(), axis=c.ax(), dtype=np.complex128 if c.dk == "c" else np.float64), auto_out=True)
for f in RED_INIT:
    T(N(f), "initial", lambda c: K(c.A(), axis=c.ax(), initial=c.Q()), shapes=ND0)
    T(N(f), "where", lambda c: K(c.A(), axis=c.ax(), initial=c.Q(), where=c.mask()), shapes=ND)
for f in RED_WHERE:
    T(N(f), "where", lambda c: K(c.A(), axis=c.ax(), where=c.mask()), shapes=ND)
for f in ["std", "var", "nanstd", "nanvar"]:
    T(N(f), "ddof", lambda c: K(c.A(), axis=c.ax(), ddof=1), shapes=ND, auto_out=True)
    T(N(f), "correction", lambda c: K(c.A(), correction=1), shapes=ND)
for f in ["std", "var"]:
    # mean= must be broadcastable with keepdims=True result; it is a value operand of the same unit
    def _b(c, f=f):
        a = c.A()
        ax = c.ax0()
        return K(a, axis=ax, mean=Op(np.mean(a.data, axis=ax, keepdims=True), "value", 0))
    T(N(f), "meankw", _b, shapes=ND)
for f in ["median", "nanmedian"]:
    T(N(f), "overwrite", lambda c: K(c.A(), axis=c.ax(), overwrite_input=True), shapes=ND)
T(N("average"), "weights", lambda c: K(c.A(), axis=c.ax0(), weights=c.A((c.shp[c.ax0()] if c.nd else 1,), g=1, pos=True)), shapes=("1d",))
T(N("average"), "weights2d", lambda c: K(c.A(), weights=c.A(g=1, pos=True), returned=True), shapes=ND)
T(N("average"), "returned", lambda c: K(c.A(), axis=c.ax(), returned=True), shapes=ND)

for f in ["cumsum", "cumprod", "nancumsum", "nancumprod"]:
    nan = f in NANF
    T(N(f), "pos", lambda c, nan=nan: K(c.A(nan=nan)), auto_out=True)
    T(N(f), "axis", lambda c, nan=nan: K(c.A(nan=nan), axis=c.ax0()), shapes=ND0, auto_out=True)
    T(N(f), "axispos", lambda c, nan=nan: K(c.A(nan=nan), c.ax0()), shapes=ND)
for f in ["cumulative_sum", "cumulative_prod"]:
    T(N(f), "pos", lambda c: K(c.A()), shapes=("1d", "empty"), auto_out=True)
    T(N(f), "axis", lambda c: K(c.A(), axis=c.ax0()), shapes=ND, auto_out=True)
    T(N(f), "initial", lambda c: K(c.A(), axis=c.ax0(), include_initial=True), shapes=ND)
    T(N(f), "dtype", lambda c: K(c.A(), axis=c.ax0(), dtype=np.complex128), shapes=ND)

for f in ["percentile", "nanpercentile", "quantile", "nanquantile"]:
    sc = 100.0 if "percentile" in f else 1.0
    nan = f.startswith("nan")
    T(N(f), "pos", lambda c, sc=sc, nan=nan: K(c.A(nan=nan), 0.3 * sc), dtypes="fi", auto_out=True)
    T(N(f), "qarr", lambda c, sc=sc, nan=nan: K(c.A(nan=nan), np.array([0.1, 0.5, 0.77]) * sc, axis=c.ax()), dtypes="fi", shapes=ND, auto_out=True)
    T(N(f), "method", lambda c, sc=sc: K(c.A(), 0.4 * sc, axis=c.ax(), method="nearest", keepdims=True), dtypes="fi", shapes=ND)
    T(N(f), "qkw", lambda c, sc=sc: K(c.A(), q=[0.25 * sc, 0.5 * sc], overwrite_input=True), dtypes="fi", shapes=ND)
    T(N(f), "weights", lambda c, sc=sc: K(c.A(), 0.4 * sc, axis=c.ax0(), method="inverted_cdf",
                                          weights=c.A((c.shp[c.ax0()],), g=1, pos=True)), dtypes="fi", shapes=("1d",))

# ------------------------------------------------------------------ unary (array in)
UNARY = ["angle", "argwhere", "atleast_1d", "atleast_2d", "atleast_3d", "copy", "fix", "flatnonzero", "flip",
         "i0", "imag", "real", "iscomplex", "iscomplexobj", "isreal", "isrealobj", "isneginf", "isposinf",
         "nan_to_num", "ndim", "nonzero", "ravel", "real_if_close", "shape", "size", "sinc", "sort",
         "sort_complex", "squeeze", "transpose", "permute_dims", "unique", "unique_values", "unique_counts",
         "unique_inverse", "unique_all", "ones_like", "zeros_like", "min_scalar_type", "argsort",
         "diagflat", "trim_zeros", "ediff1d", "common_type", "result_type", "unstack", "round", "around"]
for f in UNARY:
    T(N(f), "pos", lambda c: K(c.A()))
for f in ["fix", "isneginf", "isposinf"]:
    T(N(f), "out", lambda c: K(c.A()), dtypes="fi", auto_out=True)
for f in ["round", "around"]:
    T(N(f), "decimals", lambda c: K(c.A(), decimals=1), auto_out=True)
    T(N(f), "decpos", lambda c: K(c.A(), 2))
    T(N(f), "negdec", lambda c: K(c.A(), decimals=-1), auto_out=True)
    T(N(f), "outpos", lambda c: (lambda a: K(a, 1, c.O(a.data)))(c.A()))
T(N("empty_like"), "pos", lambda c: K(c.A()), values=False)
T(N("empty_like"), "shape", lambda c: K(c.A(), dtype=np.float32, shape=(2, 3)), values=False)
for f in ["ones_like", "zeros_like"]:
    T(N(f), "kw", lambda c: K(c.A(), dtype=np.float32, order="F", shape=(2, 3)))
    T(N(f), "subok", lambda c: K(c.A(), subok=False))
T(N("full_like"), "pos", lambda c: K(c.A(), c.Q()))
T(N("full_like"), "kw", lambda c: K(c.A(), fill_value=c.Q(), dtype=np.complex128, shape=(3, 2)))
T(N("angle"), "deg", lambda c: K(c.A(), deg=True))
T(N("copy"), "order", lambda c: K(c.A(), order="F", subok=True), shapes=D2)
T(N("flip"), "axis", lambda c: K(c.A(), axis=c.ax0()), shapes=ND)
T(N("flip"), "axes", lambda c: K(c.A(), (0, 1)), shapes=D2)
for f in ["fliplr", "flipud", "matrix_transpose", "diag_indices_from", "tril_indices_from", "triu_indices_from"]:
    T(N(f), "pos", lambda c: K(c.A()), shapes=D2)
for f in ["tril_indices_from", "triu_indices_from"]:
    T(N(f), "k", lambda c: K(c.A(), k=1), shapes=D2)
for f in ["tril", "triu"]:
    T(N(f), "pos", lambda c: K(c.A()), shapes=ND)
    T(N(f), "k", lambda c: K(c.A(), k=-1), shapes=D2)
    T(N(f), "kpos", lambda c: K(c.A(), 1), shapes=D2)
T(N("diag"), "pos", lambda c: K(c.A()), shapes=ND)
T(N("diag"), "k", lambda c: K(c.A(), k=1), shapes=ND)
T(N("diagflat"), "k", lambda c: K(c.A(), k=-1), shapes=ND)
T(N("diagonal"), "pos", lambda c: K(c.A()), shapes=D2)
T(N("diagonal"), "kw", lambda c: K(c.A(), offset=1, axis1=1, axis2=0), shapes=D2)
T(N("trace"), "pos", lambda c: K(c.A()), shapes=D2, auto_out=True)
T(N("trace"), "kw", lambda c: K(c.A(), offset=1, axis1=1, axis2=0, dtype=np.complex128), shapes=D2, auto_out=True)
T(N("trace"), "offpos", lambda c: K(c.A(), -1), shapes=D2)
T(N("nan_to_num"), "kw", lambda c: K(c.A(nan=True), copy=True, nan=7.0, posinf=1e3, neginf=-1e3))
T(N("nan_to_num"), "inplace", lambda c: K(c.A(nan=True), copy=False), dtypes="fc")
T(N("ravel"), "order", lambda c: K(c.A(), order="F"), shapes=D2)
T(N("real_if_close"), "tol", lambda c: K(c.A(), tol=1e9))
T(N("size"), "axis", lambda c: K(c.A(), axis=c.ax0()), shapes=ND)
T(N("sort"), "axis", lambda c: K(c.A(), axis=c.ax(), kind="stable"), shapes=ND0)
T(N("sort"), "axispos", lambda c: K(c.A(), 0), shapes=ND)
T(N("sort"), "stable", lambda c: K(c.A(), stable=True), shapes=ND)
T(N("sort"), "descending", lambda c: K(c.A(), descending=True), shapes=ND, dtypes="fi")
T(N("argsort"), "axis", lambda c: K(c.A(), axis=c.ax(), kind="stable"), shapes=ND0)
T(N("argsort"), "stable", lambda c: K(c.A(), stable=True), shapes=ND)
T(N("argsort"), "descending", lambda c: K(c.A(), descending=True), shapes=ND, dtypes="fi")
T(N("partition"), "pos", lambda c: K(c.A(), 1), shapes=ND)
T(N("partition"), "kw", lambda c: K(c.A(), kth=[0, 2], axis=c.ax0(), kind="introselect"), shapes=ND)
T(N("argpartition"), "pos", lambda c: K(c.A(uniq=True), 1), shapes=ND)
T(N("argpartition"), "kw", lambda c: K(c.A(uniq=True), kth=2, axis=c.ax0()), shapes=ND)
T(N("squeeze"), "axis", lambda c: K(c.A((1,) + c.shp), axis=0))
T(N("transpose"), "axes", lambda c: K(c.A(), axes=(1, 0)), shapes=D2)
T(N("transpose"), "axespos", lambda c: K(c.A(), (1, 0)), shapes=D2)
T(N("unique"), "kw", lambda c: K(c.A(small=True), return_index=True, return_inverse=True, return_counts=True), shapes=ND0)
T(N("unique"), "axis", lambda c: K(c.A(small=True), axis=0, equal_nan=False), shapes=ND)
T(N("unique"), "unsorted", lambda c: K(c.A(small=True), sorted=False), shapes=ND)
T(N("trim_zeros"), "trim", lambda c: K(c.A(small=True), trim="f"), shapes=("1d",))
T(N("trim_zeros"), "zeros", lambda c: K(_zpad(c)), shapes=("1d",))
T(N("ediff1d"), "kw", lambda c: K(c.A(), to_end=c.Q(), to_begin=c.A((2,))), shapes=ND)
T(N("ediff1d"), "endpos", lambda c: K(c.A(), c.A((2,))), shapes=ND)
T(N("diff"), "pos", lambda c: K(c.A()), shapes=ND0)
T(N("diff"), "n", lambda c: K(c.A(), n=2, axis=c.ax0()), shapes=ND)
T(N("diff"), "npos", lambda c: K(c.A(), 2, 0), shapes=ND)
T(N("diff"), "prepend", lambda c: K(c.A(), prepend=c.A((1,)), append=c.A((2,))), shapes=("1d",))
T(N("gradient"), "pos", lambda c: K(c.A()), shapes=ND)
T(N("gradient"), "dx", lambda c: K(c.A(), 0.5, axis=c.ax0(), edge_order=2), shapes=ND)
T(N("gradient"), "coords", lambda c: K(c.A(), c.A((c.shp[0],), g=1, sort=True, dtype=np.float64), axis=0), shapes=ND)
T(N("unwrap"), "pos", lambda c: K(c.A()), shapes=ND, dtypes="fi")
T(N("unwrap"), "kw", lambda c: K(c.A(), discont=1.0, axis=0, period=3.0), shapes=ND, dtypes="fi")
T(N("unwrap"), "discpos", lambda c: K(c.A(), 2.0, 0), shapes=ND, dtypes="fi")
T(N("unstack"), "axis", lambda c: K(c.A(), axis=-1), shapes=D2)
T(N("astype"), "pos", lambda c: K(c.A(), np.complex128))
T(N("astype"), "copy", lambda c: K(c.A(), np.float64, copy=False), dtypes="fi")
T(N("can_cast"), "pos", lambda c: K(c.A(), np.float32))
T(N("can_cast"), "casting", lambda c: K(c.A(), np.float32, casting="same_kind"))
T(N("result_type"), "two", lambda c: K(c.A(), c.A(g=0, dtype=np.float32), np.int8))
T(N("common_type"), "two", lambda c: K(c.A(), c.A(dtype=np.float32)), dtypes="fc")
for f in ["may_share_memory", "shares_memory"]:
    T(N(f), "pos", lambda c: K(c.A(), c.A()))
T(N("array_str"), "pos", lambda c: K(c.A()), result="string")
T(N("array_repr"), "pos", lambda c: K(c.A()), result="string")
T(N("array_repr"), "kw", lambda c: K(c.A(), precision=3, suppress_small=True, max_line_width=40), result="string")
T(N("array2string"), "pos", lambda c: K(c.A()), result="string")
T(N("array2string"), "kw", lambda c: K(c.A(), precision=2, separator=","), result="string")

# ------------------------------------------------------------------ shape manipulation
T(N("reshape"), "pos", lambda c: K(c.A(), (-1,)))
T(N("reshape"), "kw", lambda c: K(c.A(), shape=(c.shp[1], c.shp[0]), order="F", copy=True), shapes=D2)
T(N("reshape"), "2d", lambda c: K(c.A(), (c.shp[1], c.shp[0])), shapes=D2)
T(N("resize"), "pos", lambda c: K(c.A(), (2, 3)))
T(N("broadcast_to"), "pos", lambda c: K(c.A(), (2,) + c.shp))
T(N("broadcast_to"), "subok", lambda c: K(c.A(), shape=(3,) + c.shp, subok=True))
T(N("broadcast_arrays"), "pos", lambda c: K(c.A(), c.A((1,) * c.nd, g=1)))
T(N("broadcast_arrays"), "subok", lambda c: K(c.A(), c.A((1,) * c.nd, g=1), subok=True))
T(N("expand_dims"), "pos", lambda c: K(c.A(), 0))
T(N("expand_dims"), "kw", lambda c: K(c.A(), axis=(0, -1)))
T(N("moveaxis"), "pos", lambda c: K(c.A(), 0, -1), shapes=D2)
T(N("moveaxis"), "kw", lambda c: K(c.A(), source=[0, 1], destination=[1, 0]), shapes=D2)
T(N("rollaxis"), "pos", lambda c: K(c.A(), 1), shapes=D2)
T(N("rollaxis"), "start", lambda c: K(c.A(), 0, start=2), shapes=D2)
T(N("swapaxes"), "pos", lambda c: K(c.A(), 0, 1), shapes=D2)
T(N("swapaxes"), "kw", lambda c: K(c.A(), axis1=-1, axis2=0), shapes=D2)
T(N("roll"), "pos", lambda c: K(c.A(), 2))
T(N("roll"), "axis", lambda c: K(c.A(), shift=-1, axis=c.ax0()), shapes=ND)
T(N("roll"), "multi", lambda c: K(c.A(), (1, 2), axis=(0, 1)), shapes=D2)
T(N("rot90"), "pos", lambda c: K(c.A()), shapes=D2)
T(N("rot90"), "kw", lambda c: K(c.A(), k=3, axes=(1, 0)), shapes=D2)
T(N("rot90"), "kpos", lambda c: K(c.A(), 2), shapes=D2)
T(N("repeat"), "pos", lambda c: K(c.A(), 2))
T(N("repeat"), "axis", lambda c: K(c.A(), repeats=[1 + (i % 3) for i in range(c.shp[0])], axis=0), shapes=ND)
T(N("tile"), "pos", lambda c: K(c.A(), 2))
T(N("tile"), "reps", lambda c: K(c.A(), reps=(2, 1, 3)))
T(N("delete"), "pos", lambda c: K(c.A(), 1), shapes=ND)
T(N("delete"), "axis", lambda c: K(c.A(), obj=[0, 2], axis=0), shapes=ND)
T(N("delete"), "slice", lambda c: K(c.A(), slice(0, 2), axis=c.ax0()), shapes=ND)
for f in ["split", "array_split"]:
    T(N(f), "pos", lambda c: K(c.A((6,) + c.shp[1:]), 3), shapes=ND)
    T(N(f), "idx", lambda c: K(c.A(), [1, 3], axis=0), shapes=ND)
    T(N(f), "kw", lambda c: K(c.A(), indices_or_sections=[1], axis=-1), shapes=ND)
T(N("array_split"), "uneven", lambda c: K(c.A(), 3), shapes=ND0)
T(N("hsplit"), "pos", lambda c: K(c.A((4, 6)), 2), shapes=("2d",))
T(N("hsplit"), "idx", lambda c: K(c.A(), [1]), shapes=ND)
T(N("vsplit"), "pos", lambda c: K(c.A((4, 3)), 2), shapes=("2d",))
T(N("vsplit"), "idx", lambda c: K(c.A(), [1, 2]), shapes=D2)
T(N("dsplit"), "pos", lambda c: K(c.A((2, 3, 4)), 2), shapes=("2d",))
T(N("dsplit"), "idx", lambda c: K(c.A((2, 3, 4)), [1, 3]), shapes=("2d",))
T(N("pad"), "pos", lambda c: K(c.A(), 1), shapes=ND0)
T(N("pad"), "edge", lambda c: K(c.A(), (1, 2), mode="edge"), shapes=ND)
T(N("pad"), "const", lambda c: K(c.A(), pad_width=2, mode="constant", constant_values=c.Q()), shapes=ND)
T(N("pad"), "reflect", lambda c: K(c.A(), ((1, 1),) * c.nd, "reflect", reflect_type="odd"), shapes=ND)
T(N("pad"), "linramp", lambda c: K(c.A(), 2, mode="linear_ramp", end_values=c.Q()), shapes=ND, dtypes="f")
T(N("pad"), "stat", lambda c: K(c.A(), 2, mode="mean", stat_length=2), shapes=ND, dtypes="f")
T(N("apply_along_axis"), "pos", lambda c: K(np.sort, c.ax0(), c.A()), shapes=ND)
T(N("apply_along_axis"), "reduce", lambda c: K(np.sum, 0, c.A()), shapes=ND)
T(N("apply_along_axis"), "args", lambda c: K(np.roll, 0, c.A(), 1), shapes=ND)
T(N("apply_over_axes"), "keepdims", lambda c: K(lambda a, ax: np.sum(a, axis=ax, keepdims=True), c.A(), [0]), shapes=ND)
T(N("apply_over_axes"), "sum1", lambda c: K(np.sum, c.A(), [0]), shapes=ND)
T(N("apply_over_axes"), "sum2", lambda c: K(np.sum, c.A(), [0, 1]), shapes=D2)
T(N("apply_over_axes"), "sum3d", lambda c: K(np.sum, c.A((2, 3, 4)), [0, 2]), shapes=("2d",))
T(N("apply_over_axes"), "neg", lambda c: K(np.max, c.A((2, 3, 4)), (-1, 0)), shapes=("2d",))
T(N("meshgrid"), "pos", lambda c: K(c.A((c.n,)), c.A((c.m,), g=1)), shapes=("1d",))
T(N("meshgrid"), "kw", lambda c: K(c.A((c.n,)), c.A((c.m,), g=1), copy=False, sparse=True, indexing="ij"), shapes=("1d",))
T(N("meshgrid"), "three", lambda c: K(c.A((2,)), c.A((3,), g=1), c.A((4,), g=2), indexing="ij"), shapes=("1d",))


def _zpad(c):
    a = c.A(small=True)
    a.data[:1] = 0
    a.data[-2:] = 0
    return a
