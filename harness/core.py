"""Shared machinery of the unyt verification checks (see /verif/DESIGN.md §1, §6).

Runs under /venv/bin/python (unyt importable from /repo, installed editable).
"""
import fcntl
import hashlib
import json
import math
import os
import random
import re
import struct
import subprocess
import sys
import time
import warnings

VERIF = os.path.dirname(os.path.dirname(os.path.abspath(__file__)))
LEAN = os.path.join(VERIF, "lean")
BUILD = os.path.join(VERIF, "build")
EVID = os.environ.get("VERIF_EVIDENCE_DIR") or os.path.join(VERIF, "evidence")  # override: runs against seeded changes
REPLAYS = os.path.join(VERIF, "replays")
DRIVER = os.path.join(LEAN, ".lake", "build", "bin", "unytmodel")
PY = "/venv/bin/python"
REPO = os.environ.get("UNYT_REPO", "/repo")
ALLOWED_AXIOMS = {"propext", "Classical.choice", "Quot.sound"}
TRUSTED_BASE = [
    "Lean 4.33.0 kernel (lake build; leanchecker re-check in the thorough tier)",
    "axioms ⊆ {propext, Classical.choice, Quot.sound}, enforced per run by #print axioms",
    "translator tools/*.py (cross-checked by dump opcodes against the live objects)",
    "correspondence harness + compiled Lean model at Float (seeded generators, tolerance 2^-40)",
    "UnytModel/Ref/* hand-written reference tables",
    "modelled, not verified: sympy, NumPy kernels, CPython, IEEE-754 rounding",
]

RTOL = 2.0 ** -40

# --------------------------------------------------------------------------------------
# float codec


def f2b(x):
    return struct.unpack("<Q", struct.pack("<d", float(x)))[0]


def b2f(b):
    return struct.unpack("<d", struct.pack("<Q", int(b)))[0]


def close(a, b, rtol=RTOL, atol=0.0):
    a = float(a)
    b = float(b)
    if a == b:
        return True
    if math.isnan(a) and math.isnan(b):
        return True
    if math.isinf(a) or math.isinf(b):
        return False
    return abs(a - b) <= max(atol, rtol * max(abs(a), abs(b)))


# --------------------------------------------------------------------------------------
# model driver


class Model:
    """One session of the compiled Lean model: feed lines, get one reply per line.
    `exe` names the driver executable (`unytmodel` = shared opcodes; `drv_cnn` = property Cnn)."""

    def __init__(self, exe="unytmodel"):
        self.driver = os.path.join(LEAN, ".lake", "build", "bin", exe)
        if not os.path.exists(self.driver):
            raise RuntimeError(f"model driver not built: {self.driver}")

    def ask(self, lines):
        if not lines:
            return []
        data = "".join(l + "\n" for l in lines)
        p = subprocess.run([self.driver], input=data.encode("utf-8"), capture_output=True, timeout=600)
        if p.returncode != 0:
            raise RuntimeError(f"model driver failed rc={p.returncode}: {p.stderr[-400:]!r}")
        out = p.stdout.decode("utf-8").split("\n")
        if out and out[-1] == "":
            out.pop()
        if len(out) != len(lines):
            raise RuntimeError(f"model driver: {len(lines)} lines in, {len(out)} lines out")
        return [o.split("\t") for o in out]


# --------------------------------------------------------------------------------------
# extract / build / audit


class Broken(Exception):
    """A proof obligation, the translation or the build no longer checks."""

    def __init__(self, what, detail=""):
        super().__init__(what)
        self.what = what
        self.detail = detail


def run_extract(plugins=()):
    """Run the translator: the core tables plus the plugins (tools/extract.d/<name>.py) whose
    names start with one of `plugins`.  Returns (status line, error detail or None)."""
    cmd = [PY, os.path.join(VERIF, "tools", "extract_tables.py"), "--only", ",".join(plugins)]
    p = subprocess.run(cmd, capture_output=True, text=True)
    if p.returncode != 0:
        return p.stdout.strip(), (p.stdout + p.stderr)[-2000:]
    return p.stdout.strip(), None


class BuildResult:
    def __init__(self, ok, log, errors):
        self.ok = ok
        self.log = log
        self.errors = errors  # list of (file, line, msg)


def lake_build(targets):
    """`lake build` under a lock. Returns BuildResult (never raises on proof failure)."""
    os.makedirs(BUILD, exist_ok=True)
    lock = open(os.path.join(LEAN, ".build.lock"), "w")
    fcntl.flock(lock, fcntl.LOCK_EX)
    try:
        p = subprocess.run(["lake", "build"] + list(targets), cwd=LEAN, capture_output=True, text=True)
    finally:
        fcntl.flock(lock, fcntl.LOCK_UN)
        lock.close()
    log = p.stdout + p.stderr
    errors = []
    for m in re.finditer(r"^error: ([^\s:]+\.lean):(\d+):(\d+): (.*)$", log, re.M):
        errors.append((m.group(1), int(m.group(2)), m.group(4)))
    return BuildResult(p.returncode == 0, log, errors)


def theorem_index(relpath):
    """[(line, name)] of theorem declarations in a Lean source file."""
    out = []
    ns = []
    path = os.path.join(LEAN, relpath)
    with open(path, encoding="utf-8") as f:
        for i, line in enumerate(f, 1):
            m = re.match(r"^namespace\s+(\S+)", line)
            if m:
                ns.append(m.group(1))
            m = re.match(r"^end\s+(\S+)", line)
            if m and ns and ns[-1] == m.group(1):
                ns.pop()
            m = re.match(r"^(?:private\s+|protected\s+)?theorem\s+(\S+)", line)
            if m:
                out.append((i, ".".join(ns + [m.group(1)])))
    return out


def enclosing_theorem(relpath, line):
    name = None
    for ln, nm in theorem_index(relpath):
        if ln <= line:
            name = nm
    return name


_HIDDEN = re.compile(r"\bpartial\s+def\b|^\s*opaque\s|\bextern\b")
_BANNED = re.compile(r"\bsorry\b|\badmit\b|^axiom\s|native_decide|bv_decide|implemented_by|\bunsafe\s|maxHeartbeats\s+0\b")


def strip_comments(src):
    # block comments (nested) and line comments
    out = []
    i = 0
    depth = 0
    n = len(src)
    while i < n:
        if src.startswith("/-", i):
            depth += 1
            i += 2
        elif depth and src.startswith("-/", i):
            depth -= 1
            i += 2
        elif depth:
            if src[i] == "\n":
                out.append("\n")
            i += 1
        elif src.startswith("--", i):
            while i < n and src[i] != "\n":
                i += 1
        else:
            out.append(src[i])
            i += 1
    return "".join(out)


def audit_sources():
    """Banned constructs outside comments in hand-written Lean sources."""
    hits = []
    for root, _dirs, files in os.walk(LEAN):
        if ".lake" in root:
            continue
        for fn in files:
            if not fn.endswith(".lean"):
                continue
            p = os.path.join(root, fn)
            src = strip_comments(open(p, encoding="utf-8").read())
            # string literals may mention the words; drop them
            src = re.sub(r'"(?:\\.|[^"\\])*"', '""', src)
            rel = os.path.relpath(p, LEAN)
            # `partial def` / `opaque` hide a definition from the kernel: allowed only in the I/O loop and wire decoding of the drivers (never a theorem subject)
            io_only = rel in ("UnytModel/Driver.lean", "Main.lean") or rel.startswith("Drivers/") or rel.startswith("UnytModel/Ops/")
            for i, line in enumerate(src.split("\n"), 1):
                if _BANNED.search(line) or (not io_only and _HIDDEN.search(line)):
                    hits.append(f"{rel}:{i}: {line.strip()[:100]}")
    return hits


def audit_axioms(module, names):
    """Run `#print axioms` on each theorem; returns {name: [axioms]}."""
    os.makedirs(BUILD, exist_ok=True)
    path = os.path.join(BUILD, f"audit_{module.replace('.', '_')}.lean")
    with open(path, "w", encoding="utf-8") as f:
        f.write(f"import {module}\n")
        for n in names:
            f.write(f"#print axioms {n}\n")
    p = subprocess.run(["lake", "env", "lean", path], cwd=LEAN, capture_output=True, text=True)
    out = p.stdout + p.stderr
    res = {}
    # "'Name' depends on axioms: [a, b]"  or  "'Name' does not depend on any axioms"
    for m in re.finditer(r"^'(\S+?)' depends on axioms: \[([^\]]*)\]", out, re.S | re.M):
        res[m.group(1)] = [a.strip() for a in m.group(2).replace("\n", " ").split(",") if a.strip()]
    for m in re.finditer(r"^'(\S+?)' does not depend on any axioms", out, re.M):
        res[m.group(1)] = []
    return res, out


def leanchecker(modules):
    """independent re-check of the compiled proofs (thorough tier)"""
    p = subprocess.run(["lake", "env", "leanchecker"] + list(modules), cwd=LEAN, capture_output=True, text=True)
    return p.returncode == 0, (p.stdout + p.stderr)[-1500:]


def prove(prop, modules, extra_targets=("unytmodel",), plugins=None, tier="quick"):
    """Extract (core tables + the property's translator plugins), build the property's proof
    modules and driver(s), audit.  Never raises on a failed proof.

    Returns dict(obligations, discharged, theorems, broken=[(name, detail)], build_ok, ...)."""
    if plugins is None:
        plugins = (prop.lower(),)
    status, xerr = run_extract(plugins)
    info = {"extract": status}
    targets = list(modules) + list(extra_targets)
    br = lake_build(targets)
    theorems = []
    for mod in modules:
        rel = mod.replace(".", "/") + ".lean"
        theorems += [(mod, n) for _l, n in theorem_index(rel)]
    broken = []
    if not br.ok:
        seen = set()
        for file, line, msg in br.errors:
            rel = file
            th = None
            try:
                th = enclosing_theorem(rel, line)
            except FileNotFoundError:
                pass
            key = (rel, th)
            if key in seen:
                continue
            seen.add(key)
            broken.append((th or rel, f"{file}:{line}: {msg}"))
        if not broken:
            broken.append(("lake build", br.log[-1500:]))
    names_ok = [n for _m, n in theorems if n not in {b[0] for b in broken}]
    if br.ok:
        hits = audit_sources()
        for h in hits:
            broken.append(("audit:banned-construct", h))
        for mod in modules:
            names = [n for m, n in theorems if m == mod]
            if not names:
                continue
            ax, raw = audit_axioms(mod, names)
            for n in names:
                if n not in ax:
                    broken.append((n, "audit: #print axioms gave no answer: " + raw[-300:]))
                else:
                    bad = [a for a in ax[n] if a not in ALLOWED_AXIOMS]
                    if bad:
                        broken.append((n, f"audit: depends on axioms {bad}"))
    if xerr:
        broken.append(("translator", xerr))
    if br.ok and tier == "thorough" and modules:
        ok, out = leanchecker(modules)
        info["leanchecker"] = "ok" if ok else out
        if not ok:
            broken.append(("leanchecker", out))
    info.update(
        obligations=len(theorems),
        discharged=len([n for n in names_ok if n not in {b[0] for b in broken}]) if theorems else 0,
        theorems=[n for _m, n in theorems],
        broken=broken,
        build_ok=br.ok,
    )
    return info


# --------------------------------------------------------------------------------------
# known findings, replays, evidence


def load_known():
    """known_findings.json plus known_findings.d/*.json (one file per property is allowed)"""
    out = []
    p = os.path.join(VERIF, "known_findings.json")
    if os.path.exists(p):
        out += json.load(open(p, encoding="utf-8"))["findings"]
    d = os.path.join(VERIF, "known_findings.d")
    if os.path.isdir(d):
        for fn in sorted(os.listdir(d)):
            if fn.endswith(".json"):
                out += json.load(open(os.path.join(d, fn), encoding="utf-8"))["findings"]
    return out


def write_replay(prop, payload):
    os.makedirs(REPLAYS, exist_ok=True)
    blob = json.dumps(payload, sort_keys=True, ensure_ascii=False, default=str)
    dig = hashlib.sha1(blob.encode("utf-8")).hexdigest()[:12]
    path = os.path.join(REPLAYS, f"{prop}-{dig}.json")
    with open(path, "w", encoding="utf-8") as f:
        f.write(json.dumps(payload, indent=1, ensure_ascii=False, default=str))
    return path


class Check:
    """Collects what one run of one property check observed and decides the outcome."""

    def __init__(self, prop, tier, seed, level="proof"):
        self.prop = prop
        self.tier = tier
        self.seed = seed
        self.level = level
        self.t0 = time.time()
        self.rng = random.Random(f"{prop}:{seed}")
        self.evaluations = 0
        self.nontrivial = set()
        self.samples = []
        self.hist = {}
        self.failures = []  # (key, what, replay_payload)
        self.disagreements = []  # (opcode, detail, candidate_replay or None)
        self.proof = None
        self.assumptions = []
        self.extra = {}

    # counters -------------------------------------------------------------------
    def count(self, bucket, n=1):
        self.hist[bucket] = self.hist.get(bucket, 0) + n

    def case(self, distinct_key=None, sample=None):
        self.evaluations += 1
        if distinct_key is not None:
            self.nontrivial.add(distinct_key)
        if sample is not None and len(self.samples) < 12:
            self.samples.append(sample)

    # findings -------------------------------------------------------------------
    def fail(self, key, what, replay):
        """The direct oracle saw the property fail on the real code for this input."""
        self.failures.append((key, what, replay))

    def disagree(self, opcode, detail, candidate=None):
        """Model and implementation differ (not by itself a violation)."""
        self.disagreements.append((opcode, detail, candidate))

    # finishing -------------------------------------------------------------------
    def finish(self, rule, explanation=""):
        known = [k for k in load_known() if k["property"] == self.prop]
        known_keys = {k["key"]: k for k in known if k.get("status") == "known"}
        violations = []
        confirmed_known = {}
        for key, what, replay in self.failures:
            if key in known_keys:
                confirmed_known.setdefault(key, what)
            else:
                violations.append((key, what, replay, False))
        broken = list(self.proof["broken"]) if self.proof else []
        if (broken or self.disagreements) and not violations:
            # nothing failed the direct oracle outside the known list: still a violation,
            # because the property is no longer shown to hold
            detail = {
                "broken_obligations": [{"theorem": n, "detail": d} for n, d in broken],
                "correspondence_disagreements": [
                    {"opcode": o, "detail": d} for o, d, _c in self.disagreements[:20]
                ],
            }
            violations.append(("unproved", "proof obligation or correspondence no longer checks", detail, True))
        violations = self._confirm_replays(violations)
        lines = []
        for key in sorted(confirmed_known):
            lines.append(f"KNOWN-FINDING: property={self.prop} {key}: {known_keys[key]['what']}")
        seen = set()
        nviol = 0
        for key, what, replay, nofail in violations:
            if key in seen:
                continue
            seen.add(key)
            nviol += 1
            payload = {"property": self.prop, "key": key, "what": what, "seed": self.seed, "tier": self.tier}
            if nofail:
                payload["no_failing_input_found"] = True
                payload["unchecked"] = replay
            else:
                payload["replay"] = replay
                payload["broken_obligations"] = [{"theorem": n, "detail": d} for n, d in broken]
            path = write_replay(self.prop, payload)
            tail = " no-failing-input-found" if nofail else ""
            lines.append(f"VIOLATION property={self.prop} replay={path}{tail}")
        self.write_evidence(rule, explanation, nviol, sorted(confirmed_known))
        for l in lines:
            print(l)
        sys.stdout.flush()
        return 1 if nviol else 0

    def _confirm_replays(self, violations):
        """A violation the in-process oracle saw is reported with a replay that must fail in a FRESH process.
        When the single-call replay passes there (the failure needs state left by earlier calls: a process-wide
        cache, a memo, a flag), the same snippet evaluated several times in one process is tried — enough for
        state the call itself leaves behind; harnesses with longer histories build their own (C12, C13, C17).
        Bounded: the first 8 distinct keys, 120 s each; never turns a violation into a pass."""
        out = []
        seen = set()
        tried = 0
        for key, what, replay, nofail in violations:
            if nofail or key in seen or not isinstance(replay, dict) or not replay.get("python") or tried >= 8:
                seen.add(key)
                out.append((key, what, replay, nofail))
                continue
            seen.add(key)
            tried += 1
            code = replay["python"]

            def fails(src):
                try:
                    p = subprocess.run([PY, "-W", "ignore", "-c", src], cwd=REPO, capture_output=True, text=True, timeout=120,
                                       env=dict(os.environ, PYTHONPATH=REPO))
                    return p.returncode != 0
                except Exception:  # noqa: BLE001
                    return True
            if not fails(code):
                rep = ("_SRC = " + repr(code) + "\nfor _i in range(3):\n    try:\n        exec(compile(_SRC, '<replay>', 'exec'), {'__name__': '__replay__'})\n"
                       "    except SystemExit as _e:\n        if _e.code not in (0, None):\n            raise\n")
                if fails(rep):
                    replay = dict(replay, python=rep,
                                  history_dependent="the single evaluation passes in a fresh process; the failure appears when the same snippet is evaluated again in the same process")
                    what = what + " [from the second evaluation in one process on]"
                    self.count("replay:needs-repetition")
                else:
                    replay = dict(replay, replay_note="seen by the in-process oracle after the earlier calls of this run; this single-call replay passes in a fresh process")
                    self.count("replay:not-reproduced-in-fresh-process")
            out.append((key, what, replay, nofail))
        return out

    def write_evidence(self, rule, explanation, nviol, known_confirmed):
        os.makedirs(EVID, exist_ok=True)
        cov = {
            "evaluations": self.evaluations,
            "distinct_nontrivial": len(self.nontrivial),
            "rule": rule,
            "samples": self.samples or ["(no correspondence samples in this run)"],
            "histogram": dict(sorted(self.hist.items())),
            "trusted_base": TRUSTED_BASE,
            "known_findings_confirmed": known_confirmed,
        }
        if self.proof is not None and self.proof["discharged"] > 0:
            cov["obligations"] = self.proof["obligations"]
            cov["discharged"] = self.proof["discharged"]
            cov["theorems"] = self.proof["theorems"]
            cov["checker_cmd"] = "cd /verif/lean && lake build <property modules> && lake env lean build/audit_<module>.lean  (#print axioms)"
        if explanation:
            cov["explanation"] = explanation
        cov["disagreements_checked"] = len(self.disagreements)
        cov["traces_validated_against_impl"] = self.evaluations
        cov.update(self.extra)
        ev = {
            "property_id": self.prop,
            "tier": self.tier,
            "seed": self.seed,
            "level": self.level,
            "coverage": cov,
            "assumptions": self.assumptions,
            "wall_s": round(time.time() - self.t0, 2),
            "violations": nviol,
        }
        with open(os.path.join(EVID, f"{self.prop}.json"), "w", encoding="utf-8") as f:
            json.dump(ev, f, indent=1, ensure_ascii=False, default=str)


def quiet_numpy():
    warnings.simplefilter("ignore")
    import numpy as np

    np.seterr(all="ignore")


def exc_name(e):
    return type(e).__name__
