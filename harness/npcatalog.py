"""npcatalog — call templates for every NumPy array function that dispatches through
`__array_function__` (numpy, numpy.linalg, numpy.fft: every public callable with
`_implementation`) and for every ndarray method.

Reusable by C06 (values), C07 (units), C16 (classes), C18 (mutation), C01 (commensurability).

A *template* names the function, builds a `Call` from a seeded context (dtype, shape class) and
marks which arguments are value operands (`Op`).  The consumer decides what an operand becomes
(`Call.materialize(wrap)`): a bare ndarray, a `unyt_array` in some unit, a view, ...

    import npcatalog as C
    for t in C.templates():                      # every template (functions and methods)
        for sc in t.shapes:
            for dt in t.dtypes:                  # "f", "i", "c"
                call = t.instantiate(dt, sc, seed)        # Call with Op placeholders
                args, kwargs, objs = call.materialize(C.bare_wrap)
                r = t.invoke(args, kwargs)

`universe()` is the dispatcher universe of the running NumPy; `coverage()` says which universe
members have no template (must be empty — asserted by the C06 check).
The template tables live in npcatalog_funcs.py / npcatalog_linalg.py / npcatalog_methods.py.
"""
import hashlib
import io

import numpy as np

SHAPES = ("0d", "1d", "2d", "sq", "empty")
DTYPES = {"f": np.float64, "i": np.int64, "c": np.complex128}

# --------------------------------------------------------------------------------------
# universe


def func_id(nsname, name):
    return nsname + "." + name


_UNIVERSE = None


def universe():
    """{canonical id: function object} — every public callable of numpy, numpy.linalg, numpy.fft
    that has `_implementation` (i.e. dispatches through __array_function__).  Aliases
    (np.concat is np.concatenate) are listed once under the function's own __name__ when that
    name exists in the namespace, else under the first name found."""
    global _UNIVERSE
    if _UNIVERSE is not None:
        return _UNIVERSE
    out = {}
    seen = {}
    for nsname, ns in (("numpy", np), ("numpy.linalg", np.linalg), ("numpy.fft", np.fft)):
        for n in sorted(dir(ns)):
            if n.startswith("_"):
                continue
            o = getattr(ns, n)
            if callable(o) and hasattr(o, "_implementation"):
                if id(o) in seen:
                    continue
                own = getattr(o, "__name__", n)
                name = own if getattr(ns, own, None) is o else n
                seen[id(o)] = func_id(nsname, name)
                out[func_id(nsname, name)] = o
    _UNIVERSE = out
    return out


def name_of(func):
    """canonical id of a dispatcher function object (None if not in the universe)"""
    for k, v in universe().items():
        if v is func:
            return k
    return None


def resolve(fid):
    """function object for an id such as 'numpy.linalg.det' (aliases allowed); None if the
    running NumPy does not have it"""
    parts = fid.split(".")
    o = np
    for p in parts[1:]:
        o = getattr(o, p, None)
        if o is None:
            return None
    return o


# --------------------------------------------------------------------------------------
# operands and calls


class Op:
    """A value operand placeholder.

    data    ndarray or python scalar (the bare numbers)
    role    'value' (carries the quantity), 'out' (an out= buffer)
    group   operands of one group must be commensurable (same unit in C06); different groups
            may carry different units (dot(a, b): a group 0, b group 1)
    dimless the function requires this operand to be dimensionless (choose's selector, ...)
    """

    __slots__ = ("data", "role", "group", "dimless")

    def __init__(self, data, role="value", group=0, dimless=False):
        self.data = data
        self.role = role
        self.group = group
        self.dimless = dimless

    def __repr__(self):
        d = self.data
        s = f"{d.dtype}{list(d.shape)}" if isinstance(d, np.ndarray) else repr(d)
        return f"Op({self.role},g{self.group},{s})"


class Call:
    def __init__(self, *args, **kwargs):
        self.args = list(args)
        self.kwargs = dict(kwargs)

    def ops(self):
        out = []

        def walk(x):
            if isinstance(x, Op):
                out.append(x)
            elif isinstance(x, (list, tuple)):
                for y in x:
                    walk(y)
            elif isinstance(x, dict):
                for y in x.values():
                    walk(y)

        walk(self.args)
        walk(self.kwargs)
        return out

    def materialize(self, wrap):
        """(args, kwargs, objs): every Op replaced by wrap(op); objs = [(op, object)] in
        traversal order; aux values are copied when they are ndarrays / byte sinks so that two
        materialisations never share state"""
        objs = []

        def walk(x):
            if isinstance(x, Op):
                o = wrap(x)
                objs.append((x, o))
                return o
            if isinstance(x, list):
                return [walk(y) for y in x]
            if isinstance(x, tuple):
                return tuple(walk(y) for y in x)
            if isinstance(x, dict):
                return {k: walk(v) for k, v in x.items()}
            if isinstance(x, np.ndarray):
                return x.copy()
            if isinstance(x, io.BytesIO):
                return io.BytesIO()
            if isinstance(x, io.StringIO):
                return io.StringIO()
            return x

        args = [walk(a) for a in self.args]
        kwargs = {k: walk(v) for k, v in self.kwargs.items()}
        return args, kwargs, objs

    def describe(self):
        def d(x):
            if isinstance(x, Op):
                return repr(x)
            if isinstance(x, (list, tuple)):
                return "[" + ", ".join(d(y) for y in x) + "]"
            if isinstance(x, np.ndarray):
                return f"nd:{x.dtype}{list(x.shape)}"
            if callable(x):
                return getattr(x, "__name__", "callable")
            return repr(x)

        return ", ".join([d(a) for a in self.args] + [f"{k}={d(v)}" for k, v in self.kwargs.items()])


K = Call


def bare_wrap(op):
    d = op.data
    return d.copy() if isinstance(d, np.ndarray) else d


def unyt_wrap(units=("m", "s", "kg"), out="unyt", out_unit="A", registry=None):
    """wrap for runs on quantities: value operands become unyt_array / unyt_quantity in the unit
    of their group; out buffers become unyt_array (out='unyt', in `out_unit`) or stay bare."""
    import unyt

    def unit(name):
        return unyt.Unit(name, registry=registry) if registry is not None else unyt.Unit(name)

    def wrap(op):
        d = op.data
        if op.role == "out":
            if out == "bare":
                return d.copy()
            return unyt.unyt_array(d.copy(), unit(out_unit))
        u = unit("dimensionless") if op.dimless else unit(units[op.group % len(units)])
        if isinstance(d, np.ndarray) and d.ndim > 0:
            return unyt.unyt_array(d.copy(), u)
        if isinstance(d, np.ndarray):
            return unyt.unyt_quantity(d.copy(), u)
        return unyt.unyt_quantity(d, u)

    return wrap


# --------------------------------------------------------------------------------------
# seeded context


def _seed(*parts):
    h = hashlib.sha256("|".join(str(p) for p in parts).encode()).digest()
    return int.from_bytes(h[:8], "little")


class Ctx:
    """Seeded builder context handed to a template's `build`."""

    def __init__(self, tid, dtype_key, shape_class, seed):
        self.rng = np.random.default_rng(_seed(tid, dtype_key, shape_class, seed))
        self.dk = dtype_key
        self.dtype = np.dtype(DTYPES[dtype_key])
        self.sc = shape_class
        r = self.rng
        self.n = int(r.integers(4, 7))
        self.m = int(r.integers(2, 4))
        self.k = int(r.integers(2, 5))

    # shapes ------------------------------------------------------------------------
    @property
    def shp(self):
        return {"0d": (), "1d": (self.n,), "2d": (self.n, self.m), "sq": (self.k, self.k), "empty": (0,)}[self.sc]

    @property
    def nd(self):
        return len(self.shp)

    def ax(self):
        """a valid axis for the class shape (None for 0-d)"""
        if self.nd == 0:
            return None
        if self.nd == 1:
            return 0
        return int(self.rng.choice([0, 1, -1]))

    def ax0(self):
        """an axis, never None (0 for 0-d: the call then raises in NumPy as well)"""
        a = self.ax()
        return 0 if a is None else a

    # data --------------------------------------------------------------------------
    def data(self, shape=None, pos=False, sort=False, nan=False, small=False, dtype=None, uniq=False):
        shape = self.shp if shape is None else tuple(shape)
        dt = self.dtype if dtype is None else np.dtype(dtype)
        r = self.rng
        size = int(np.prod(shape)) if shape else 1
        if dt.kind == "f":
            x = r.standard_normal(size) * 3.0
            if small:
                x = np.round(x)
        elif dt.kind == "i":
            x = r.integers(-9, 10, size=size)
        elif dt.kind == "c":
            x = r.standard_normal(size) * 3.0 + 1j * r.standard_normal(size) * 2.0
        elif dt.kind == "b":
            x = r.integers(0, 2, size=size).astype(bool)
        elif dt.kind == "u":
            x = r.integers(0, 200, size=size)
        else:
            raise ValueError(dt)
        if uniq and dt.kind == "i":
            x = r.permutation(np.arange(-size, size))[:size]
        if pos:
            x = np.abs(x) + (1 if dt.kind in "iu" else 0.5)
        x = x.astype(dt)
        if nan and dt.kind in "fc" and size > 1:
            x[r.integers(0, size)] = np.nan
        if sort:
            x = np.sort(x)
        return x.reshape(shape)

    # operands ----------------------------------------------------------------------
    def A(self, shape=None, g=0, dimless=False, **kw):
        """value operand array of the class shape (or the given shape)"""
        return Op(self.data(shape, **kw), "value", g, dimless)

    def Q(self, g=0, pos=False, dimless=False):
        """scalar value operand (a python number of the context dtype kind)"""
        v = self.data((), pos=pos).item()
        return Op(v, "value", g, dimless)

    def SPD(self, g=0):
        """symmetric/hermitian positive definite (k, k) operand (float for int contexts)"""
        k = self.k
        dt = self.dtype if self.dtype.kind != "i" else np.dtype(np.float64)
        b = self.data((k, k), dtype=dt)
        a = b @ b.conj().T + k * np.eye(k, dtype=dt)
        return Op(a.astype(dt), "value", g)

    def O(self, proto, g=0):  # noqa: E743
        """out= buffer shaped/typed like `proto` (an ndarray or something np.asarray accepts)"""
        p = np.asarray(proto)
        return Op(np.zeros(p.shape, p.dtype), "out", g)

    # aux ---------------------------------------------------------------------------
    def idx(self, count, hi):
        return self.rng.integers(0, max(hi, 1), size=count) if hi > 0 else np.zeros(0, dtype=np.intp)

    def mask(self, shape=None):
        shape = self.shp if shape is None else shape
        return self.rng.integers(0, 2, size=shape).astype(bool)


# --------------------------------------------------------------------------------------
# templates


class Template:
    """func    canonical id ('numpy.sum', 'numpy.linalg.det', 'ndarray.sum')
    variant short name of the argument form ('pos', 'axis', 'out', ...)
    build   Ctx -> Call
    shapes  shape classes the template is instantiated on
    dtypes  string over 'fic'
    auto_out  also derive an `out=` variant: the call is run once on the bare data, a zeroed
              buffer with the result's shape/dtype is passed as `out=`
    invoke  (args, kwargs) -> result; default: call the function / the method of args[0]
    values  False when the result's numbers are unspecified (empty_like) — only shape/dtype compare
    result  'string' for functions whose result is text (not compared numerically)
    """

    def __init__(self, func, variant, build, shapes=SHAPES, dtypes="fic", auto_out=False,
                 invoke=None, values=True, result="", out_form=False):
        self.func = func
        self.variant = variant
        self.build = build
        self.shapes = tuple(shapes)
        self.dtypes = dtypes
        self.auto_out = auto_out
        self._invoke = invoke
        self.values = values
        self.result = result
        self.out_form = out_form  # this template passes an out= operand

    @property
    def tid(self):
        return f"{self.func}|{self.variant}"

    @property
    def is_method(self):
        return self.func.startswith("ndarray.")

    def available(self):
        if self.is_method:
            return self._invoke is not None or hasattr(np.ndarray, self.func.split(".", 1)[1])
        return resolve(self.func) is not None

    def instantiate(self, dtype_key, shape_class, seed=0):
        return self.build(Ctx(self.tid, dtype_key, shape_class, seed))

    def invoke(self, args, kwargs):
        if self._invoke is not None:
            return self._invoke(*args, **kwargs)
        if self.is_method:
            return getattr(args[0], self.func.split(".", 1)[1])(*args[1:], **kwargs)
        return resolve(self.func)(*args, **kwargs)

    def __repr__(self):
        return f"<Template {self.tid}>"


_TEMPLATES = []


def T(func, variant, build, **kw):
    t = Template(func, variant, build, **kw)
    _TEMPLATES.append(t)
    return t


def _derive_out(t):
    """the automatic out= variant of template `t`"""

    def build(c, t=t):
        call = t.build(c)
        args, kwargs, _ = call.materialize(bare_wrap)
        proto = t.invoke(args, kwargs)  # raises → the instantiation raises → the case is skipped
        if isinstance(proto, tuple):
            raise TypeError("tuple result: no single out buffer")
        call.kwargs["out"] = c.O(np.asarray(proto))
        return call

    return Template(t.func, t.variant + "+out", build, shapes=t.shapes, dtypes=t.dtypes,
                    invoke=t._invoke, values=t.values, result=t.result, out_form=True)


_LOADED = False


def _load():
    global _LOADED
    if _LOADED:
        return
    _LOADED = True
    import npcatalog_funcs  # noqa: F401
    import npcatalog_linalg  # noqa: F401
    import npcatalog_methods  # noqa: F401

    for t in list(_TEMPLATES):
        if t.auto_out:
            _TEMPLATES.append(_derive_out(t))


def templates(kind=None, only_available=True):
    """all templates; kind in (None, 'function', 'method')"""
    _load()
    out = []
    for t in _TEMPLATES:
        if kind == "function" and t.is_method:
            continue
        if kind == "method" and not t.is_method:
            continue
        if only_available and not t.available():
            continue
        out.append(t)
    return out


def by_func():
    d = {}
    for t in templates():
        d.setdefault(t.func, []).append(t)
    return d


def canonical_func(t):
    """canonical universe id for a function template (aliases resolved)"""
    if t.is_method:
        return t.func
    return name_of(resolve(t.func)) or t.func


def ndarray_methods():
    """public callables of np.ndarray (the method universe)"""
    return sorted(n for n in dir(np.ndarray) if not n.startswith("_") and callable(getattr(np.ndarray, n)))


def coverage():
    """(universe functions without template, ndarray methods without template)"""
    have = {canonical_func(t) for t in templates()}
    f = sorted(k for k in universe() if k not in have)
    m = sorted(n for n in ndarray_methods() if "ndarray." + n not in have)
    return f, m
