"""C07-specific catalogue templates (registered on import, in addition to npcatalog's): call forms whose
unit rule depends on arguments the shared catalogue does not combine.  Imported by the C07 translator plugin,
probe and oracle only (the C06 check and its tables do not see them)."""
import numpy as np

import npcatalog as C
from npcatalog import K, T

C._load()  # the shared tables first, so that the order of the shared templates is unchanged

N = lambda f: "numpy." + f  # noqa: E731
L = lambda f: "numpy.linalg." + f  # noqa: E731

# a product over several axes / one axis of a 3-d array: the exponent is the number of reduced elements
T(N("prod"), "c07axes", lambda c: K(c.A((2, 3, 4)), axis=(0, 2)), shapes=("2d",), dtypes="fc")
T(N("prod"), "c07axis3d", lambda c: K(c.A((2, 3, 4)), axis=1, keepdims=True), shapes=("2d",), dtypes="fc")
T(N("nanprod"), "c07axes", lambda c: K(c.A((2, 3, 4)), axis=(0, 2)), shapes=("2d",), dtypes="f")
T("ndarray.prod", "c07axes", lambda c: K(c.A((2, 3, 4)), axis=(0, 2)), shapes=("2d",), dtypes="fc")
T(N("var"), "c07axes", lambda c: K(c.A((2, 3, 4)), axis=(0, 2)), shapes=("2d",), dtypes="fc")
# stacks of matrices with a stack size different from the matrix order, in both directions
T(L("det"), "c07stack", lambda c: K(c.A((4, 2, 2))), shapes=("sq",), dtypes="fc")
T(L("det"), "c07stack2", lambda c: K(c.A((3, 2, 2, 2))), shapes=("sq",), dtypes="f")
T(L("inv"), "c07stack", lambda c: K(c.A((4, 2, 2))), shapes=("sq",), dtypes="fc")
T(L("eigvals"), "c07stack", lambda c: K(c.A((4, 2, 2))), shapes=("sq",), dtypes="f")
# a weighted density
T(N("histogram"), "c07densw", lambda c: K(c.A(), bins=3, density=True, weights=c.A(g=1, pos=True)), shapes=("1d", "2d"), dtypes="f")
# contractions of two operands (same unit: unyt insists) in other forms
T(N("einsum"), "c07outer", lambda c: K("i,j->ij", c.A((c.n,)), c.A((c.m,))), shapes=("1d",), dtypes="fc")
T(N("einsum"), "c07three", lambda c: K("i,i,i->", c.A((c.n,)), c.A((c.n,)), c.A((c.n,))), shapes=("1d",), dtypes="f")
# integrals with spacing along an axis of a 2-d array
T(N("trapezoid"), "c07dxaxis", lambda c: K(c.A(), dx=C.Op(0.5, "value", 1), axis=-1), shapes=("2d",), dtypes="fc")
# interpolation with unit-carrying fill values
T(N("interp"), "c07fill", lambda c: K(c.A(dtype=np.float64), c.A((c.n,), sort=True, dtype=np.float64), c.A((c.n,), g=1),
                                       left=C.Op(-100.0, "value", 1), right=C.Op(100.0, "value", 1)), dtypes="f")
