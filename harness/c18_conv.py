"""C18 direct oracle for the conversion entry points of unyt_array (copying and in-place), item
assignment and the Unit methods.  A *spec* (plain dict, JSON-able, seed-independent in its
keys) describes one call; `run_case` executes it on an operand that is a view of a guard buffer
and snapshots everything before/after; `judge` evaluates the property and returns the oracle
keys that fail.  Never consults the model.  Imported by harness/c18.py and by replay snippets."""
import numpy as np

import c18_lib as L

INPLACE = {"convert_to_units": "to", "convert_to_base": "in_base", "convert_to_cgs": "in_cgs",
           "convert_to_mks": "in_mks", "convert_to_equivalent": "to_equivalent"}
COPYING = ["to", "in_units", "to_value", "in_base", "in_cgs", "in_mks", "to_equivalent", "copy", "value", "v", "d_copy",
           "to_ndarray", "pos", "getitem", "unit_quantity", "unit_array", "str", "repr",
           "units.get_base_equivalent", "units.get_cgs_equivalent", "units.get_mks_equivalent",
           "units.as_coeff_unit", "units.mul", "units.div", "units.pow", "units.copy", "units.eq",
           "units.get_conversion_factor", "units.same_dimensions_as", "units.simplify"]

DATA = {
    "float64": [1.5, -2.25, 3.0, 40.0], "float32": [1.5, -2.25, 3.0, 40.0], "float16": [1.5, -2.25, 3.0, 40.0],
    "int64": [1, 2, 3, 40], "int32": [1, 2, 3, 40], "int16": [1, 2, 3, 40], "int8": [1, 2, 3, 40],
    "uint8": [1, 2, 3, 40], "uint64": [1, 2, 3, 40], "bool": [True, False, True, True],
    "complex128": [1.5 + 2j, -2.25j, 3.0, 40.0 + 1j],
}


def make_data(dtype, shape):
    base = np.array(DATA[dtype], dtype=dtype)
    if shape == "0d":
        return base[2].reshape(())
    if shape == "1d":
        return base[:3].copy()
    if shape == "2ds":        # 2-d, strided view
        return np.stack([base[:3], base[1:4]]).astype(dtype)
    raise ValueError(shape)


def build(spec):
    d = make_data(spec["dtype"], spec["shape"])
    H = L.hold(d, spec["unit"], strided=(spec["shape"] == "2ds"), name=spec.get("name", "nm"))
    if spec.get("ro"):
        H.obj.flags.writeable = False
    return H


def _target(spec):
    import unyt

    t = spec.get("target")
    if t is not None and spec.get("target_obj"):
        return unyt.Unit(t)
    return t


def invoke(spec, x, tgt):
    """perform the call described by `spec` on `x`; returns the call's result"""
    import unyt

    r = spec["route"]
    kw = dict(spec.get("kwargs") or {})
    eq = spec.get("equivalence")
    if r in ("to", "in_units", "to_value", "convert_to_units"):
        if eq is not None:
            return getattr(x, r)(tgt, equivalence=eq, **kw)
        return getattr(x, r)(tgt, **kw)
    if r in ("in_base", "convert_to_base"):
        if "system" in spec:
            return getattr(x, r)(spec["system"], **kw)
        return getattr(x, r)(**kw)
    if r in ("in_cgs", "in_mks", "convert_to_cgs", "convert_to_mks"):
        return getattr(x, r)(**kw)
    if r in ("to_equivalent", "convert_to_equivalent"):
        return getattr(x, r)(tgt, eq, **kw)
    if r == "copy":
        return x.copy()
    if r in ("value", "v", "unit_quantity", "unit_array"):
        return getattr(x, r)
    if r == "d_copy":
        return np.array(x.d)
    if r == "to_ndarray":
        return x.to_ndarray()
    if r == "pos":
        return +x
    if r == "getitem":
        return x[...] if x.ndim == 0 else x[0]
    if r == "str":
        return str(x)
    if r == "repr":
        return repr(x)
    if r.startswith("units."):
        u = x.units
        m = r.split(".", 1)[1]
        if m == "mul":
            return u * unyt.Unit(tgt)
        if m == "div":
            return u / unyt.Unit(tgt)
        if m == "pow":
            return u ** 2
        if m == "copy":
            return u.copy()
        if m == "eq":
            return u == unyt.Unit(tgt)
        if m == "get_conversion_factor":
            return u.get_conversion_factor(unyt.Unit(tgt))
        if m == "same_dimensions_as":
            return u.same_dimensions_as(unyt.Unit(tgt))
        return getattr(u, m)()
    if r == "setitem":
        v = spec["value"]
        val = np.array(v["data"], dtype=v.get("dtype", "float64"))
        if v.get("scalar"):
            val = val.reshape(-1)[0]
        if v.get("unit") is not None:
            val = unyt.unyt_array(val, v["unit"]) if np.ndim(val) else unyt.unyt_quantity(val, v["unit"])
        idx = {"first": 0, "slice": slice(0, 2), "all": Ellipsis, "mask": None}[spec["index"]]
        if spec["index"] == "mask":
            idx = np.array([True, False, True])
        if x.ndim == 0:
            idx = Ellipsis
        x[idx] = val
        return None
    raise ValueError(r)


def run_case(spec):
    """observed behaviour of one call: exception class, what changed on the operand, on the unit
    object it carried, on the target-unit argument; for in-place routes the result of the
    corresponding copying call on an identical fresh operand"""
    import unyt

    obs = {}
    H = build(spec)
    x = H.obj
    unit_obj = x.units
    tgt = _target(spec)
    s0 = L.snap(x, H)
    u0 = L.snap(unit_obj)
    t0 = L.snap(tgt) if isinstance(tgt, unyt.Unit) else None
    res, exc = L.call_quiet(lambda: invoke(spec, x, tgt))
    s1 = L.snap(x, H)
    obs["exc"] = L.exc_class(exc) if exc is not None else None
    obs["msg"] = L.safe_str(exc)
    obs["delta"] = L.delta(s0, s1)
    obs["unit_obj_delta"] = L.delta(u0, L.snap(unit_obj))
    obs["target_delta"] = L.delta(t0, L.snap(tgt)) if t0 is not None else []
    obs["before"], obs["after"] = s0, s1
    obs["returned_self"] = res is x or (spec["route"] == "units.simplify" and res is unit_obj)
    if spec["route"] in INPLACE and exc is None:
        # the copying counterpart on a fresh, identical operand
        cs = dict(spec, route=INPLACE[spec["route"]], ro=False)
        Hc = build(cs)
        cres, cexc = L.call_quiet(lambda: invoke(cs, Hc.obj, _target(cs)))
        obs["copy_exc"] = L.exc_class(cexc) if cexc is not None else None
        if cexc is None:
            obs["copy"] = L.snap(cres)
    return obs


def _close(a, b, dtype):
    """same numbers up to the rounding of the narrower of the two routes (the in-place route
    multiplies in the buffer's own float width, the copying one in float64 before casting)"""
    if a is None or b is None or a.shape != b.shape:
        return False
    dt = np.dtype(dtype)
    eps = {2: 2.0 ** -10, 4: 2.0 ** -23, 8: 2.0 ** -40, 16: 2.0 ** -40}.get(dt.itemsize if dt.kind != "c" else dt.itemsize // 2, 2.0 ** -40)
    a = np.asarray(a, dtype=np.complex128)
    b = np.asarray(b, dtype=np.complex128)
    with np.errstate(all="ignore"):
        ok = np.abs(a - b) <= 8 * eps * np.maximum(np.abs(a), np.abs(b)) + 1e-300
    return bool(np.all(ok | (a == b) | (np.isnan(a) & np.isnan(b))))


def family(spec):
    """route family used in the finding keys: the three `convert_to_base/cgs/mks` wrappers are one
    routine, `convert_to_units(equivalence=)` is `convert_to_equivalent`"""
    r = spec["route"]
    if r in ("convert_to_base", "convert_to_cgs", "convert_to_mks"):
        return "convert_to_base"
    if r == "convert_to_units" and spec.get("equivalence") is not None:
        return "convert_to_equivalent"
    if r in ("in_base", "in_cgs", "in_mks"):
        return "in_base"
    if r in ("to", "in_units", "to_value") and spec.get("equivalence") is not None:
        return "to_equivalent"
    if r in ("in_units", "to_value"):
        return "to"
    return r


def fault_kind(spec):
    """the invalid-input kind of a case: the injected fault, else the dtype that cannot hold the result"""
    f = spec.get("fault", "valid")
    if f in ("valid", "valid-bare", "valid-dimensionless"):
        dc = L.dtype_class(spec["dtype"])
        if dc == "int8":
            return "narrow-int-dtype"
        if dc == "bool":
            return "bool-dtype"
        return "valid"
    return f


def _narrow_out_of_range(nc, dtype, spec):
    """float16/float32 buffers run through an equivalence whose CGS constants (or results) lie
    outside the normal range of that width: the in-place chain rounds in the narrow type, the
    copying one in float64 — "up to rounding" says nothing there (as in C03/C17)"""
    dt = np.dtype(dtype)
    w = dt.itemsize if dt.kind != "c" else dt.itemsize // 2
    if w >= 8 or nc is None:
        return False
    fi = np.finfo(np.float16 if w == 2 else np.float32)
    v = np.abs(np.asarray(nc, dtype=np.complex128))
    v = v[(v > 0) & np.isfinite(v)]
    if w == 2 and spec.get("equivalence") is not None:
        return True
    return bool(v.size and (v.min() < float(fi.tiny) * 2 ** 12 or v.max() > float(fi.max) / 2 ** 12))


def judge(spec, obs):
    """[(key, what)] — the property's verdict on one observed call"""
    out = []
    r = family(spec)
    fault = fault_kind(spec)
    dc = L.dtype_class(spec["dtype"])
    view = "view" if spec["shape"] != "0d" else "scalar"
    d = list(obs["delta"])
    desc = f"{r}({spec.get('target', '')}{', ' + spec['equivalence'] if spec.get('equivalence') else ''}) on {spec['dtype']} {spec['shape']} in {spec['unit']}"
    if r in COPYING:
        # documented to return a new object: nothing about the input may change
        if r == "units.simplify":
            if obs["unit_obj_delta"] or obs["returned_self"]:
                out.append((f"documented-copying|Unit.simplify|mutates-self",
                            f"Unit('{spec['unit']}').simplify() returned self={obs['returned_self']} changed={obs['unit_obj_delta']}"))
            d = [k for k in d if k != "unit"]      # the array's unit IS that object
        elif obs["unit_obj_delta"]:
            out.append((f"copy|{r}|{fault}|unit-object", f"{desc}: the Unit object changed: {obs['unit_obj_delta']}"))
        if d:
            out.append((f"copy|{r}|{fault}|{'+'.join(d)}", f"{desc}: input changed: {d} (raised: {obs['exc']})"))
        if obs["target_delta"]:
            out.append((f"copy|{r}|{fault}|target-unit-argument", f"{desc}: the unit passed as argument changed"))
        return out
    if r == "setitem":
        if obs["exc"] is not None:
            bad = [k for k in d if k in ("numbers", "unit", "dtype", "shape", "guard", "name", "registry")]
            if bad:
                out.append((f"inplace|setitem|{fault}|{dc}|{'+'.join(bad)}", f"{desc}: raised {obs['exc']} but the target changed: {bad}"))
        else:
            bad = [k for k in d if k in ("unit", "dtype", "shape", "guard", "name", "registry")]
            if bad:
                out.append((f"inplace|setitem|{fault}|{dc}|success-changed-{'+'.join(bad)}", f"{desc}: item assignment changed {bad}"))
        return out
    # in-place conversion routes --------------------------------------------------------------
    if obs["target_delta"] or (obs["unit_obj_delta"] and obs["exc"] is not None):
        out.append((f"inplace|{r}|{fault}|unit-object", f"{desc}: a Unit object was modified"))
    if "guard" in d:
        out.append((f"inplace|{r}|{fault}|{dc}|guard", f"{desc}: bytes outside the operand were written"))
    if obs["exc"] is not None:
        bad = [k for k in d if k in ("numbers", "unit", "shape", "registry", "dtype", "name")]
        if bad == ["dtype"]:
            # the out= promotion of __array_ufunc__ (array.py:1818-1822) ran before the refusal
            out.append((f"inplace|{r}|int-retyped-on-failure", f"{desc}: raised {obs['exc']} and left the integer buffer re-typed to {obs['after']['dtype']}"))
        elif bad:
            out.append((f"inplace|{r}|{fault}|{dc}|raised-{obs['exc']}|{'+'.join(bad)}",
                        f"{desc}: raised {obs['exc']} and left the target changed: {bad}"))
        return out
    # success: only the target changed, numbers/unit of the copying call
    c = obs.get("copy")      # None when the copying counterpart raises (nothing to compare with)
    if c is not None:
        a = obs["after"]
        if c.get("unit") is not None and a.get("unit") is not None and c["unit"][:4] != a["unit"][:4]:
            out.append((f"inplace|{r}|{fault}|{dc}|unit-differs-from-copy", f"{desc}: unit {a['unit'][0]} vs copy {c['unit'][0]}"))
        na, nc = L.numbers(a), L.numbers(c)
        if nc is not None and na is not None and nc.shape == () and na.shape != ():
            nc = np.broadcast_to(nc, na.shape)
        if not _narrow_out_of_range(nc, a["dtype"], spec) and not _close(na, nc, a["dtype"]):
            out.append((f"inplace|{r}|{fault}|{dc}|numbers-differ-from-copy", f"{desc}: in-place {na} vs copy {nc}"))
    if "base" in d and "dtype" in d and view == "view":
        # the buffer now holds floats while another holder of the memory still reads integers
        b0 = np.frombuffer(obs["before"]["base_bytes"], dtype=obs["before"]["base_dtype"])
        b1 = np.frombuffer(obs["after"]["base_bytes"], dtype=obs["after"]["base_dtype"])
        tgt_vals = L.numbers(obs["after"]).ravel()
        seen = b1.astype(np.float64)
        if not all(any(abs(v - t) <= 1e-6 * max(1.0, abs(t)) for v in seen) for t in np.real(tgt_vals)):
            out.append((f"inplace|{r}|int-view|shared-buffer-reinterpreted",
                        f"{desc}: the base array of the view keeps dtype {obs['before']['base_dtype']} and now reads {b1[:4]} (was {b0[:4]})"))
    return out


def replay_snippet(spec, key, harness_dir):
    return (
        "import sys, warnings\n"
        "warnings.simplefilter('ignore')\n"
        f"sys.path.insert(0, {harness_dir!r})\n"
        "import numpy as np\n"
        "np.seterr(all='ignore')\n"
        "import c18_conv as V\n"
        f"spec = {spec!r}\n"
        "obs = V.run_case(spec)\n"
        "bad = V.judge(spec, obs)\n"
        "print('call:', spec, '\\nraised:', obs['exc'], obs['msg'], '\\nchanged:', obs['delta'], '\\nverdict:', bad)\n"
        f"assert {key!r} not in [k for k, _ in bad], bad\n"
    )
