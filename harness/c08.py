"""C08 — offset temperature scales follow point/difference semantics or refuse.

Correspondence of `UnytModel.Temp` (driver `drv_c08`) with unyt over ALL ordered pairs of the
temperature units (six table symbols, their SI-prefixed spellings, alternative spellings) x
{+, -, comparisons, *, /} in operator / ufunc / in-place / out= form, the unary power forms,
reductions, diff/ediff1d/ptp and conversions; plus a direct oracle (exact rational affine
arithmetic in kelvin, written from the definitions of the scales, never consulting the model).
"""
import json
import os
from fractions import Fraction

import numpy as np

import core

PROOF_MODULES = ["UnytProofs.C08", "UnytProofs.C08Seq", "UnytProofs.C08Reduce", "UnytProofs.C08Tab", "UnytProofs.C08Tab2", "UnytProofs.C08Tab3", "UnytProofs.C08Tab4", "UnytProofs.C08Tab5"]

# --------------------------------------------------------------------------------------
# the independent reference (also embedded verbatim in every replay file)

REF_SRC = r'''
from fractions import Fraction as _F
_SLOPE = {"K": _F(1), "R": _F(5, 9), "degC": _F(1), "degF": _F(5, 9), "delta_degC": _F(1), "delta_degF": _F(5, 9)}
_ZERO = {"degC": _F(-27315, 100), "degF": _F(-45967, 100)}
_PREFIX = {"Y": 24, "Z": 21, "E": 18, "P": 15, "T": 12, "G": 9, "M": 6, "k": 3, "h": 2, "da": 1, "d": -1, "c": -2,
           "m": -3, "µ": -6, "u": -6, "μ": -6, "n": -9, "p": -12, "f": -15, "a": -18, "z": -21, "y": -24}

def t_parse(name):
    """repr of a temperature unit -> (prefix multiplier, table symbol)"""
    for b in sorted(_SLOPE, key=len, reverse=True):
        if name.endswith(b):
            p = name[: len(name) - len(b)]
            if p == "":
                return _F(1), b
            if p in _PREFIX:
                return _F(10) ** _PREFIX[p], b
    raise ValueError("not a temperature unit of the family: " + name)

def t_kind(name):
    return "point" if t_parse(name)[1] in _ZERO else "diff"

def t_abs(name, x):
    """absolute temperature in kelvin of the reading x taken as a position on the scale"""
    pv, b = t_parse(name)
    return _SLOPE[b] * (_F(x) * pv - _ZERO.get(b, 0))

def t_dif(name, x):
    """size in kelvin of the reading x taken as a temperature difference"""
    pv, b = t_parse(name)
    return _SLOPE[b] * _F(x) * pv

def t_size(name):
    pv, b = t_parse(name)
    return _SLOPE[b] * pv

def t_reading(kind, name, kelvin):
    """the reading that denotes `kelvin` on the scale `name` (as a point or as a difference)"""
    pv, b = t_parse(name)
    z = _ZERO.get(b, 0) if kind == "point" else 0
    return (kelvin / _SLOPE[b] + z) / pv

def t_different_offset_scales(n0, n1):
    return t_kind(n0) == "point" and t_kind(n1) == "point" and not (
        t_abs(n0, 0) == t_abs(n1, 0) and t_abs(n0, 1) == t_abs(n1, 1))

def t_near(v, exact, scale):
    tol = 1e-9 * (abs(float(exact)) + float(scale)) + 1e-300
    return abs(float(v) - float(exact)) <= tol

def t_expect_additive(op, n0, x0, n1, x1):
    """(kind, kelvin) affine arithmetic requires of `x0 [n0] op x1 [n1]`, or None (no claim)"""
    k0, k1 = t_kind(n0), t_kind(n1)
    sgn = 1 if op == "add" else -1
    if k0 == "point" and k1 == "diff":
        return "point", t_abs(n0, x0) + sgn * t_dif(n1, x1)
    if k0 == "diff" and k1 == "diff":
        return "diff", t_dif(n0, x0) + sgn * t_dif(n1, x1)
    if op == "add" and k0 == "diff" and k1 == "point":
        return "point", t_dif(n0, x0) + t_abs(n1, x1)
    if op == "sub" and k0 == "point" and k1 == "point":
        return "diff", t_abs(n0, x0) - t_abs(n1, x1)
    return None

def t_check_additive(op, n0, xs0, n1, xs1, label, vs, extra_kelvin=0.0):
    """None if the returned labelled readings are what affine arithmetic gives, else a message.
    extra_kelvin: magnitude (in kelvin) of zero points that were added and subtracted on the way
    (offset conversions cancel them in floating point), part of the rounding scale"""
    for x0, x1, v in zip(xs0, xs1, vs):
        e = t_expect_additive(op, n0, x0, n1, x1)
        if e is None:
            return None
        kind, kel = e
        if t_kind(label) != kind:
            return "a %s result is labelled with the %s unit %s" % (kind, t_kind(label), label)
        want = t_reading(kind, label, kel)
        scale = abs(float(x0) * float(t_size(n0) / t_size(label))) + abs(float(x1) * float(t_size(n1) / t_size(label)))
        scale += float(extra_kelvin) / float(t_size(label))
        if not t_near(v, want, scale):
            return "%r [%s] %s %r [%s] returned %r [%s]; affine arithmetic gives %r [%s]" % (
                x0, n0, op, x1, n1, float(v), label, float(want), label)
    return None

def t_expect_reduce_initial(op, n, xs, ni, xi):
    """(kind, kelvin) affine arithmetic requires of `q + a[0] + a[1] + ...` (op 'add') or
    `q - a[0] - a[1] - ...` (op 'sub') with data xs [n] and start value xi [ni], or None (no claim)"""
    ku, ki = t_kind(n), t_kind(ni)
    tot = sum((t_dif(n, x) for x in xs), _F(0))
    sgn = 1 if op == "add" else -1
    if ku == "diff" and ki == "diff":
        return "diff", t_dif(ni, xi) + sgn * tot
    if ku == "diff" and ki == "point":
        return "point", t_abs(ni, xi) + sgn * tot
    if op == "add" and ku == "point" and ki == "diff" and len(xs) == 1:
        return "point", t_abs(n, xs[0]) + t_dif(ni, xi)
    if op == "sub" and ku == "point" and ki == "point" and len(xs) == 1:
        return "diff", t_abs(ni, xi) - t_abs(n, xs[0])
    return None

def t_check_reduce_initial(op, n, xs, ni, xi, label, v):
    e = t_expect_reduce_initial(op, n, xs, ni, xi)
    if e is None:
        return None
    kind, kel = e
    if t_kind(label) != kind:
        return "a %s result is labelled with the %s unit %s (value %r)" % (kind, t_kind(label), label, float(v))
    want = t_reading(kind, label, kel)
    scale = abs(float(xi) * float(t_size(ni) / t_size(label))) + sum(abs(float(x) * float(t_size(n) / t_size(label))) for x in xs)
    scale += (abs(float(t_abs(n, 0))) + abs(float(t_abs(ni, 0))) + abs(float(t_abs(label, 0)))) / float(t_size(label))
    if not t_near(v, want, scale):
        return "start value %r [%s] %s data %r [%s] returned %r [%s]; affine arithmetic gives %r [%s]" % (
            xi, ni, op, xs, n, float(v), label, float(want), label)
    return None
'''

_ref = {}
exec(REF_SRC, _ref)
t_parse = _ref["t_parse"]
t_kind = _ref["t_kind"]
t_abs = _ref["t_abs"]
t_dif = _ref["t_dif"]
t_size = _ref["t_size"]
t_near = _ref["t_near"]
t_reading = _ref["t_reading"]
t_different_offset_scales = _ref["t_different_offset_scales"]
t_check_additive = _ref["t_check_additive"]
t_check_reduce_initial = _ref["t_check_reduce_initial"]

BASES = ["K", "R", "degC", "degF", "delta_degC", "delta_degF"]
ALT_SPELLINGS = {"°C": "degC", "°F": "degF", "degree_celsius": "degC", "celsius": "degC", "degree_fahrenheit": "degF",
                 "kelvin": "K", "degree_kelvin": "K", "rankine": "R", "degree_rankine": "R"}
QUICK_PREFIXES = ["m", "k", "da", "µ"]


def snippet(body):
    return ("import warnings; warnings.simplefilter('ignore')\nimport numpy as np, unyt, operator\n"
            "from unyt import unyt_array, unyt_quantity, Unit\n" + REF_SRC + "\n" + body)


def guarded(src):
    """operand construction; a unit the tree does not know is not a violation (nothing is returned)"""
    body = "".join("    " + l + "\n" for l in src.strip().split("\n"))
    return "try:\n" + body + "except unyt.exceptions.UnitParseError:\n    raise SystemExit(0)  # unit unknown to this tree\n"


RAISES_SRC = '''
def raises(f):
    try:
        return False, f()
    except Exception as e:
        return True, type(e).__name__
'''


class TUnit:
    """one unit of the universe: the spelling handed to unyt, the repr of the Unit, the wire form"""

    def __init__(self, spelling):
        from unyt import Unit

        self.spelling = spelling
        self.unit = Unit(spelling)
        self.name = repr(self.unit)
        pv, base = t_parse(self.name)
        self.base = base
        self.prefix = self.name[: len(self.name) - len(base)]
        self.wire = f"{self.prefix}:{base}"
        self.kind = t_kind(self.name)
        self.shape = ("p." if self.prefix else "") + base  # seed-independent key component


def universe(tier, ex):
    """(units of the family, list of spelling-only duplicates)"""
    rows = ex["rows"]
    pres = list(ex["prefixes"]) if tier == "thorough" else QUICK_PREFIXES
    names = list(BASES)
    for b in BASES:
        if rows.get(b, [0, 0, False])[2]:
            names += [p + b for p in pres]
    units = []
    seen = set()
    for n in names:
        try:
            u = TUnit(n)
        except Exception:  # a prefix the parser rejects is C14's business
            continue
        if u.name in seen:  # 'µK' and 'μK' are the same Unit
            continue
        seen.add(u.name)
        units.append(u)
    alts = []
    for s in ALT_SPELLINGS:
        try:
            alts.append(TUnit(s))
        except Exception:
            pass
    return units, alts


# --------------------------------------------------------------------------------------
# forms

ADD_FORMS = [("operator", "r = a + b"), ("ufunc", "r = np.add(a, b)"), ("inplace", "r = a.copy(); r += b"),
             ("out", "r = a.copy(); np.add(a, b, out=r)")]
SUB_FORMS = [("operator", "r = a - b"), ("ufunc", "r = np.subtract(a, b)"), ("inplace", "r = a.copy(); r -= b"),
             ("out", "r = a.copy(); np.subtract(a, b, out=r)")]
CMP_FORMS = [("lt", "r = a < b", "lt"), ("le", "r = a <= b", "le"), ("gt", "r = a > b", "gt"), ("ge", "r = a >= b", "ge"),
             ("eq", "r = a == b", "eq"), ("ne", "r = a != b", "ne"), ("np.less", "r = np.less(a, b)", "lt"),
             ("np.equal", "r = np.equal(a, b)", "eq"), ("np.greater_equal", "r = np.greater_equal(a, b)", "ge")]
MUL_FORMS = [("operator", "r = a * b"), ("ufunc", "r = np.multiply(a, b)"), ("inplace", "r = a.copy(); r *= b")]
DIV_FORMS = [("operator", "r = a / b"), ("ufunc", "r = np.divide(a, b)"), ("inplace", "r = a.copy(); r /= b")]
FLOOR_FORMS = [("floor", "r = a // b"), ("floor-ufunc", "r = np.floor_divide(a, b)"), ("floor-inplace", "r = a.copy(); r //= b")]
PYCMP = {"lt": lambda p, q: p < q, "le": lambda p, q: p <= q, "gt": lambda p, q: p > q, "ge": lambda p, q: p >= q,
         "eq": lambda p, q: p == q, "ne": lambda p, q: p != q}

_CODE = {}


def run_form(code, a, b=None):
    """('err', class name) or ('ok', result)"""
    c = _CODE.get(code)
    if c is None:
        c = _CODE[code] = compile(code, "<form>", "exec")
    ns = {"a": a, "b": b, "np": np}
    try:
        exec(c, ns)
    except Exception as e:  # noqa: BLE001
        return ("err", core.exc_name(e))
    return ("ok", ns["r"])


def mk_src(kind, xs, spelling):
    if kind == "q":
        return f"unyt_quantity({xs[0]!r}, {spelling!r})"
    return f"unyt_array({list(xs)!r}, {spelling!r})"


def mk(kind, xs, spelling):
    from unyt import unyt_array, unyt_quantity

    if kind == "q":
        return unyt_quantity(xs[0], spelling)
    return unyt_array(list(xs), spelling)


def readings(rng, n):
    out = []
    for _ in range(n):
        r = rng.random()
        if r < 0.15:
            out.append(float(rng.randint(-40, 400)))
        else:
            out.append(round(rng.uniform(-300.0, 900.0), 3))
    return out


def vals(r):
    return [float(x) for x in np.asarray(r, dtype=float).ravel()]


# --------------------------------------------------------------------------------------


def run(tier, seed):
    import unyt
    from unyt import Unit, unyt_array, unyt_quantity

    chk = core.Check("C08", tier, seed)
    chk.proof = core.prove("C08", PROOF_MODULES, extra_targets=("drv_c08",), tier=tier)
    rng = chk.rng
    try:
        ex = json.load(open(os.path.join(core.BUILD, "extract_c08_temp.json"), encoding="utf-8"))
    except Exception as e:  # translator broken: still run the oracle on the live tables
        chk.disagree("translator", f"build/extract_c08_temp.json unreadable: {e!r}")
        from unyt import _unit_lookup_table as ult

        ex = {"rows": {k: [0, 0, bool(v[4])] for k, v in ult.default_unit_symbol_lut.items() if k in BASES},
              "prefixes": {k: 0 for k in ult.unit_prefixes}, "rules": {}}
    units, alts = universe(tier, ex)
    model = []  # (line, expectation) pairs, asked in one session at the end
    f2b = core.f2b

    def ask(line, expect):
        model.append((line, expect))

    # ---- translator cross-check: the regenerated rows / prefixes / rules vs the live objects ----
    from unyt import _unit_lookup_table as ult
    from unyt.array import unyt_array as _ua

    for b in BASES:
        v = ult.default_unit_symbol_lut.get(b)
        if v is None:
            chk.disagree("c08.row", f"table has no row {b}")
            continue
        ask(f"c08.row\t{b}", ("row", b, float(v[0]), float(v[2]), bool(v[4])))
    for p, v in ult.unit_prefixes.items():
        ask(f"c08.prefix\t{p}", ("prefix", p, float(v[0])))
    for uf in ("add", "subtract", "multiply", "divide", "floor_divide", "power", "sqrt", "square", "reciprocal", "less", "equal"):
        ask(f"c08.rule\t{uf}", ("rule", uf, _ua._ufunc_registry[getattr(np, uf)].__name__))
    for u in units:
        ask(f"c08.unit\t{u.wire}", ("unit", u))

    # ---- binary forms over all ordered pairs -----------------------------------------------------
    special = [(1.0, 50.0)]  # the regression witness (1 delta_degC + 50 degF must be 51.8 degF) rides along on every pair
    n_rand = 1 if tier == "quick" else 3
    npairs = 0
    for u0 in units:
        for u1 in units:
            npairs += 1
            xs0 = [special[0][0]] + readings(rng, 1 + n_rand)
            xs1 = [special[0][1]] + readings(rng, 1 + n_rand)
            mixed = t_different_offset_scales(u0.name, u1.name)
            pairkey = f"{u0.shape}|{u1.shape}"
            # trivial = both operands are the same offset-free unit (no temperature-specific branch is taken)
            nontrivial = not (u0.name == u1.name and u0.kind == "diff")
            chk.count(f"pair:{u0.kind}-{u1.kind}")
            # -- additive
            for op, forms, opc in (("add", ADD_FORMS, "c08.add"), ("sub", SUB_FORMS, "c08.sub")):
                outcomes = {}
                for okind in ("a", "q"):
                    for fname, code in forms:
                        if okind == "q" and fname in ("out",):
                            continue
                        a = mk(okind, xs0, u0.spelling)
                        b = mk(okind, xs1, u1.spelling)
                        res = run_form(code, a, b)
                        chk.case(("bin", op, u0.name, u1.name, fname, okind) if nontrivial else None,
                                 {"op": op, "form": fname, "u0": u0.spelling, "u1": u1.spelling, "x0": xs0, "x1": xs1}
                                 if (npairs * 7 + len(fname)) % 97 == 0 else None)
                        src = guarded(f"a = {mk_src(okind, xs0, u0.spelling)}\nb = {mk_src(okind, xs1, u1.spelling)}\n")
                        if res[0] == "ok":
                            r = res[1]
                            label = repr(getattr(r, "units", None))
                            try:
                                msg = t_check_additive(op, u0.name, xs0, u1.name, xs1, label, vals(r))
                            except ValueError as e:
                                msg = f"result labelled {label}: {e}"
                            if mixed:
                                chk.fail(f"no-refusal|{op}|{pairkey}",
                                         f"{u0.spelling} {op} {u1.spelling} (two different offset scales) returned {r!r}",
                                         {"python": snippet(src + RAISES_SRC + f"def f():\n    {code.replace('; ', chr(10) + '    ')}\n    return r\n"
                                                            "bad, r = raises(f)\nassert bad, ('two different offset scales combined without an error', r)\n"),
                                          "form": fname})
                            elif msg:
                                chk.fail(f"wrong-value|{op}|{pairkey}", msg,
                                         {"python": snippet(src + RAISES_SRC + f"def f():\n    {code.replace('; ', chr(10) + '    ')}\n    return r\n"
                                                            f"bad, r = raises(f)\nif not bad:\n    m = t_check_additive({op!r}, {u0.name!r}, {xs0!r}, {u1.name!r}, {xs1!r}, repr(r.units), [float(v) for v in np.asarray(r).ravel()])\n    assert m is None, m\n"),
                                          "form": fname})
                            outcomes[(okind, fname)] = ("ok", label, vals(r))
                        else:
                            outcomes[(okind, fname)] = res
                # the model: one line per element; every form must agree with it
                for i, (x0, x1) in enumerate(zip(xs0, xs1)):
                    ask(f"{opc}\t{u0.wire}\t{u1.wire}\t{f2b(x0)}\t{f2b(x1)}", ("additive", op, u0, u1, i, x0, x1, outcomes))
            # -- comparisons
            outcomes = {}
            for fname, code, pyop in CMP_FORMS:
                a = mk("a", xs0, u0.spelling)
                b = mk("a", xs1, u1.spelling)
                res = run_form(code, a, b)
                chk.case(("cmp", u0.name, u1.name, fname) if nontrivial else None)
                if res[0] == "ok":
                    got = [bool(x) for x in np.asarray(res[1]).ravel()]
                    outcomes[fname] = ("ok", pyop, got)
                    src = guarded(f"a = {mk_src('a', xs0, u0.spelling)}\nb = {mk_src('a', xs1, u1.spelling)}\n")
                    if mixed:
                        chk.fail(f"no-refusal|compare|{pairkey}", f"{u0.spelling} {fname} {u1.spelling} (two different offset scales) returned {got}",
                                 {"python": snippet(src + RAISES_SRC + f"def f():\n    {code}\n    return r\nbad, r = raises(f)\nassert bad, r\n"), "form": fname})
                    elif u0.kind == u1.kind:
                        den = t_dif if u0.kind == "diff" else t_abs
                        for x0, x1, g in zip(xs0, xs1, got):
                            p, q = den(u0.name, x0), den(u1.name, x1)
                            if abs(float(p - q)) <= 1e-9 * (abs(float(p)) + abs(float(q))):
                                chk.count("cmp-borderline-skipped")
                                continue
                            if PYCMP[pyop](p, q) != g:
                                chk.fail(f"wrong-value|compare|{pairkey}", f"{x0} [{u0.spelling}] {fname} {x1} [{u1.spelling}] returned {g}; in kelvin {float(p)} vs {float(q)}",
                                         {"python": snippet(src + RAISES_SRC + f"def f():\n    {code}\n    return r\nbad, r = raises(f)\n"
                                                            f"den = t_dif if {u0.kind!r} == 'diff' else t_abs\n"
                                                            f"want = [({ {'lt':'p < q','le':'p <= q','gt':'p > q','ge':'p >= q','eq':'p == q','ne':'p != q'}[pyop] }) for p, q in zip([den({u0.name!r}, x) for x in {xs0!r}], [den({u1.name!r}, x) for x in {xs1!r}])]\n"
                                                            "assert bad or [bool(v) for v in np.asarray(r).ravel()] == want, (r, want)\n"), "form": fname})
                                break
                else:
                    outcomes[fname] = res
            for i, (x0, x1) in enumerate(zip(xs0, xs1)):
                ask(f"c08.cmp\t{u0.wire}\t{u1.wire}\t{f2b(x0)}\t{f2b(x1)}", ("cmp", u0, u1, i, x0, x1, outcomes))
            # -- multiply / divide
            for op, forms, opc in (("mul", MUL_FORMS, "c08.mul"), ("div", DIV_FORMS, "c08.div"), ("floordiv", FLOOR_FORMS, "c08.floordiv")):
                outcomes = {}
                xs1nz = [x if x != 0 else 1.5 for x in xs1]
                for fname, code in forms:
                    a = mk("a", xs0, u0.spelling)
                    b = mk("a", xs1nz, u1.spelling)
                    res = run_form(code, a, b)
                    chk.case((op, u0.name, u1.name, fname) if nontrivial else None)
                    if res[0] == "ok":
                        r = res[1]
                        outcomes[fname] = ("ok", float(r.units.base_value), vals(r))
                        if u0.kind == "point" or u1.kind == "point":
                            src = guarded(f"a = {mk_src('a', xs0, u0.spelling)}\nb = {mk_src('a', xs1nz, u1.spelling)}\n")
                            chk.fail(f"no-refusal|{'div' if op == 'floordiv' else op}|{pairkey}", f"{u0.spelling} {op} {u1.spelling} with an offset-scale operand returned {r!r}",
                                     {"python": snippet(src + RAISES_SRC + f"def f():\n    {code.replace('; ', chr(10) + '    ')}\n    return r\nbad, r = raises(f)\nassert bad, r\n"), "form": fname})
                    else:
                        outcomes[fname] = res
                if op == "floordiv":  # one line per element: the model returns the rescaled divisor
                    for i, x1 in enumerate(xs1nz):
                        ask(f"{opc}\t{u0.wire}\t{u1.wire}\t{f2b(x1)}", (op, u0, u1, i, xs0[i], x1, outcomes))
                else:
                    ask(f"{opc}\t{u0.wire}\t{u1.wire}", (op, u0, u1, xs0, xs1nz, outcomes))
    chk.extra["pairs"] = npairs
    chk.extra["units"] = len(units)

    # ---- alternative spellings resolve to the same units (a few forms each) -------------------
    for au in alts:
        canon = ALT_SPELLINGS[au.spelling]
        if au.name != canon:
            chk.disagree("spelling", f"Unit({au.spelling!r}) is {au.name}, expected {canon}")
            continue
        for other in units[:6]:
            for op, code in (("add", "r = a + b"), ("sub", "r = a - b")):
                xs0, xs1 = readings(rng, 2), readings(rng, 2)
                r1 = run_form(code, mk("a", xs0, au.spelling), mk("a", xs1, other.spelling))
                r2 = run_form(code, mk("a", xs0, canon), mk("a", xs1, other.spelling))
                chk.case(("alt", au.spelling, other.name, op))
                same = (r1[0] == r2[0]) and (r1[1] == r2[1] if r1[0] == "err" else (repr(r1[1].units) == repr(r2[1].units) and vals(r1[1]) == vals(r2[1])))
                if not same:
                    chk.disagree("spelling", f"{au.spelling} {op} {other.spelling}: {r1} vs canonical spelling {r2}")

    # ---- one temperature operand with a number / dimensionless quantity / metres ----------------
    OTHERS = [("dimless", "2.5", 2.5, 1.0), ("dimless", "unyt_quantity(2.5, '')", None, 1.0), ("other", "unyt_quantity(2.5, 'm')", None, 1.0)]
    for u in units:
        xs = readings(rng, 2)
        for wire, src_o, _bare, _sc in OTHERS:
            for side in ("left", "right"):
                for op, sym, opc in (("mul", "*", "c08.mul"), ("div", "/", "c08.div"), ("floordiv", "//", "c08.floordiv")):
                    tsrc = mk_src("a", xs, u.spelling)
                    expr = f"({tsrc}) {sym} ({src_o})" if side == "left" else f"({src_o}) {sym} ({tsrc})"
                    code = f"r = {expr}"
                    ns = {"np": np, "unyt_array": unyt_array, "unyt_quantity": unyt_quantity}
                    try:
                        exec(code, ns)
                        res = ("ok", ns["r"])
                    except Exception as e:  # noqa: BLE001
                        res = ("err", core.exc_name(e))
                    chk.case(("scalar", op, u.name, wire, src_o, side))
                    if res[0] == "ok" and u.kind == "point":
                        chk.fail(f"no-refusal|{'div' if op == 'floordiv' else op}|{u.shape}|{wire}", f"{expr} with an offset-scale operand returned {res[1]!r}",
                                 {"python": snippet(RAISES_SRC + f"bad, r = raises(lambda: {expr})\nassert bad, r\n")})
                    a, b = (u.wire, wire) if side == "left" else (wire, u.wire)
                    ask(f"{opc}\t{a}\t{b}" + (f"\t{f2b(2.5)}" if op == "floordiv" else ""), ("scalar", op, u, expr, res))

    # ---- unary power forms, reductions, diff --------------------------------------------------
    UNARY = [("sqrt", "", "np.sqrt(a)"), ("cbrt", "", "np.cbrt(a)"), ("square", "", "np.square(a)"), ("reciprocal", "", "np.reciprocal(a)"),
             ("power", "2", "np.power(a, 2)"), ("power", "3", "np.power(a, 3)"), ("power", "1/2", "np.power(a, 0.5)"), ("power", "-2", "np.power(a, -2.0)"),
             ("square", "", "a ** 2"), ("sqrt", "", "a ** 0.5"), ("reciprocal", "", "a ** -1"), ("power", "3", "a ** 3"), ("power", "3/2", "a ** 1.5"),
             ("power", "3", "operator.ipow(a.copy(), 3)"), ("square", "", "operator.ipow(a.copy(), 2)"), ("square", "", "a * a"),
             ("mulreduce", "3", "np.multiply.reduce(a)"), ("mulreduce", "3", "np.prod(a)"), ("mulreduce", "3", "a.prod()")]
    import operator

    for u in units:
        xs = [abs(x) + 0.5 for x in readings(rng, 3)]
        for mop, marg, expr in UNARY:
            a = unyt_array(xs, u.spelling)
            try:
                res = ("ok", eval(expr, {"np": np, "a": a, "operator": operator}))
            except Exception as e:  # noqa: BLE001
                res = ("err", core.exc_name(e))
            chk.case(("unary", expr, u.name) if u.kind == "point" else None)
            fam = {"mulreduce": "multiply.reduce"}.get(mop, mop)  # the ufunc / reduction the form reaches
            if res[0] == "ok" and u.kind == "point":
                chk.fail(f"no-refusal|{fam}|{u.shape}", f"{expr} on an offset-scale quantity ({u.spelling}) returned {res[1]!r} instead of raising",
                         {"python": snippet(RAISES_SRC + guarded(f"a = unyt_array({xs!r}, {u.spelling!r})") + f"bad, r = raises(lambda: {expr})\nassert bad, r\n")})
            ask(f"c08.unary\t{mop}\t{marg}\t{u.wire}", ("unary", u, expr, res))
        # reductions of add / subtract
        for rule, expr in (("preserve", "np.add.reduce(a)"), ("preserve", "a.sum()"), ("preserve", "np.cumsum(a)"), ("difference", "np.subtract.reduce(a)")):
            a = unyt_array(xs[:2], u.spelling)
            try:
                res = ("ok", eval(expr, {"np": np, "a": a}))
            except Exception as e:  # noqa: BLE001
                res = ("err", core.exc_name(e))
            chk.case(("reduce", expr, u.name))
            if res[0] == "ok" and rule == "difference":
                # x0 - x1 on two elements: point - point or difference - difference
                r = res[1]
                try:
                    msg = t_check_additive("sub", u.name, xs[:1], u.name, xs[1:2], repr(r.units), vals(r))
                except ValueError as e:
                    msg = str(e)
                if msg:
                    chk.fail(f"wrong-value|subtract.reduce|{u.shape}", msg,
                             {"python": snippet(guarded(f"a = unyt_array({xs[:2]!r}, {u.spelling!r})") + f"try:\n    r = {expr}\nexcept Exception:\n    raise SystemExit(0)  # refused: nothing returned\nm = t_check_additive('sub', {u.name!r}, {xs[:1]!r}, {u.name!r}, {xs[1:2]!r}, repr(r.units), [float(v) for v in np.asarray(r).ravel()])\nassert m is None, m\n")})
            ask(f"c08.reduce\t{rule}\t{u.wire}", ("reduce", u, expr, res))
        # diff / ediff1d / ptp
        ys = readings(rng, 3)
        for fn, expr in (("diff", "np.diff(a)"), ("ediff1d", "np.ediff1d(a)"), ("ptp", "np.ptp(a)")):
            a = unyt_array(ys, u.spelling)
            try:
                res = ("ok", eval(expr, {"np": np, "a": a}))
            except Exception as e:  # noqa: BLE001
                res = ("err", core.exc_name(e))
            chk.case(("diff", fn, u.name))
            if fn == "ptp":
                pairs = [(min(ys), max(ys))]
            else:
                pairs = list(zip(ys[:-1], ys[1:]))
            if res[0] == "ok":  # difference − difference or point − point
                r = res[1]
                try:
                    msg = t_check_additive("sub", u.name, [p[1] for p in pairs], u.name, [p[0] for p in pairs], repr(r.units), vals(r))
                except ValueError as e:
                    msg = str(e)
                if msg:
                    chk.fail(f"wrong-value|{fn}|{u.shape}", f"{expr} on {ys} [{u.spelling}]: " + msg,
                             {"python": snippet(guarded(f"a = unyt_array({ys!r}, {u.spelling!r})") + f"try:\n    r = {expr}\nexcept Exception:\n    raise SystemExit(0)  # refused: nothing returned\nm = t_check_additive('sub', {u.name!r}, {[p[1] for p in pairs]!r}, {u.name!r}, {[p[0] for p in pairs]!r}, repr(r.units), [float(v) for v in np.asarray(r).ravel()])\nassert m is None, m\n")})
            ask(f"c08.diff\t{u.wire}\t{f2b(pairs[0][0])}\t{f2b(pairs[0][1])}", ("diff", u, expr, res))

    # ---- conversions over all ordered pairs ---------------------------------------------------
    ROUTES = [("to", "r = a.to(B)"), ("in_units", "r = a.in_units(B)"), ("convert_to_units", "r = a.copy(); r.convert_to_units(B)"),
              ("to_value", "r = unyt_array(a.to_value(B), B)")]
    shared = []
    for u in units:
        for v in units:
            x = readings(rng, 1)[0]
            a = unyt_array([x], u.spelling)
            want = t_reading("point", v.name, t_abs(u.name, x))
            sc = abs(x * float(t_size(u.name) / t_size(v.name)))
            _pv, vb = t_parse(v.name)
            _pu, ub = t_parse(u.name)
            sc += abs(float(_ref["_ZERO"].get(vb, 0) / _pv)) + abs(float(_ref["_ZERO"].get(ub, 0) * t_size(u.name) / _pu / t_size(v.name)))
            got = None
            for rn, code in ROUTES:
                ns = {"a": a, "B": v.spelling, "unyt_array": unyt_array}
                try:
                    exec(code, ns)
                    r = ns["r"]
                except Exception as e:  # noqa: BLE001
                    chk.fail(f"convert-raised|{u.shape}|{v.shape}", f"{u.spelling} -> {v.spelling} via {rn} raised {core.exc_name(e)}",
                             {"python": snippet(guarded(f"a = unyt_array([{x!r}], {u.spelling!r}); B = {v.spelling!r}; Unit(B)") + f"{code.replace('; ', chr(10))}\n")})
                    continue
                chk.case(("conv", u.name, v.name, rn) if u.name != v.name else None)
                g = vals(r)[0]
                if rn == "to":
                    got = g
                if not t_near(g, want, sc) or repr(r.units) != v.name:
                    chk.fail(f"wrong-value|convert|{u.shape}|{v.shape}", f"{x} [{u.spelling}] -> {v.spelling} via {rn} gave {g} [{r.units!r}]; the affine map gives {float(want)}",
                             {"python": snippet(guarded(f"a = unyt_array([{x!r}], {u.spelling!r}); B = {v.spelling!r}; Unit(B)") + f"{code.replace('; ', chr(10))}\n"
                                                f"want = t_reading('point', {v.name!r}, t_abs({u.name!r}, {x!r}))\nassert t_near(float(r.d[0]), want, {sc!r}) and repr(r.units) == {v.name!r}, (r, float(want))\n"), "route": rn})
            f, o = u.unit.get_conversion_factor(v.unit)
            ask(f"c08.conv\t{u.wire}\t{v.wire}\t{f2b(x)}", ("conv", u, v, x, f, o, got, sc))
            try:
                import gen

                ca, fa = gen.expr_wire(u.unit.expr)
                cb, fb = gen.expr_wire(v.unit.expr)
                shared.append(("\t".join(["convunits", "0", str(ca), fa, str(cb), fb, str(f2b(x))]), (u, v, x, f, o, got, sc)))
            except Exception:  # noqa: BLE001
                pass


    # ---- Python sequences (list / tuple) of quantities as operands: _coerce_iterable_units -------
    # unyt_array([q0, q1, ...]) and BOTH operands of every binary ufunc accept a list/tuple of
    # quantities in different units, unified to the unit of the first element.  All ordered pairs
    # (array unit, first unit of the sequence); the second element cycles through the units of the
    # first element's kind, the third through all units.
    SEQ_COERCE = [("list", "r = unyt_array(b)"), ("tuple", "r = unyt_array(tuple(b))"), ("arrays", "r = unyt_array([unyt_array([q.d, q.d], q.units) for q in b])")]
    SEQ_ADD = [("right", "operator", "r = a + b"), ("right", "ufunc-tuple", "r = np.add(a, tuple(b))"), ("right", "inplace", "r = a.copy(); r += b"),
               ("right", "out", "r = a.copy(); np.add(a, b, out=r)"), ("left", "operator", "r = b + a"), ("left", "ufunc", "r = np.add(b, a)")]
    SEQ_SUB = [("right", "operator", "r = a - b"), ("right", "ufunc-tuple", "r = np.subtract(a, tuple(b))"), ("right", "inplace", "r = a.copy(); r -= b"),
               ("right", "out", "r = a.copy(); np.subtract(a, b, out=r)"), ("left", "operator", "r = b - a"), ("left", "ufunc", "r = np.subtract(b, a)")]
    SEQ_CMP = [("right", "lt", "r = a < b", "lt"), ("right", "np.greater_equal", "r = np.greater_equal(a, tuple(b))", "ge"), ("right", "eq", "r = a == b", "eq"),
               ("left", "np.less", "r = np.less(b, a)", "lt"), ("left", "np.not_equal", "r = np.not_equal(tuple(b), a)", "ne")]
    by_kind = {"point": [u for u in units if u.kind == "point"], "diff": [u for u in units if u.kind == "diff"]}
    nseq = 0
    for i0, u0 in enumerate(units):
        for i1, uf in enumerate(units):
            nseq += 1
            same = by_kind[uf.kind]
            u2 = same[(i0 + 3 * i1) % len(same)]
            u3 = units[(5 * i0 + i1 + seed) % len(units)]
            sus = [uf, u2, u3]
            xs0 = readings(rng, 3)
            ys = readings(rng, 3)
            b_src = "[" + ", ".join(f"unyt_quantity({y!r}, {u.spelling!r})" for u, y in zip(sus, ys)) + "]"
            a_src = mk_src("a", xs0, u0.spelling)
            src = guarded(f"a = {a_src}\nb = {b_src}\n")
            mkb = lambda: [unyt_quantity(y, u.spelling) for u, y in zip(sus, ys)]  # noqa: E731
            claim = [i for i, u in enumerate(sus) if u.kind == uf.kind]  # elements the arithmetic oracle speaks about
            chk.count(f"seq:{u0.kind}-{uf.kind}")
            seqwire = ",".join(u.wire for u in sus) + "\t" + ",".join(str(f2b(y)) for y in ys)
            # -- unification itself (the conversion clause): every reading marks the same temperature as its element
            if i0 == i1 or (i0 + i1) % 6 == 0:  # the array unit plays no role here: a sixth of the pairs is enough
                outcomes = {}
                for fname, code in SEQ_COERCE:
                    ns = {"b": mkb(), "np": np, "unyt_array": unyt_array}
                    try:
                        exec(code, ns)
                        res = ("ok", ns["r"])
                    except Exception as e:  # noqa: BLE001
                        res = ("err", core.exc_name(e))
                    chk.case(("seq-coerce", tuple(u.name for u in sus), fname))
                    rep_n = 2 if fname == "arrays" else 1
                    if res[0] == "ok":
                        r = res[1]
                        label = repr(getattr(r, "units", None))
                        vs = vals(np.asarray(r).T) if fname == "arrays" else vals(r)
                        outcomes[fname] = ("ok", label, vs[:3])
                        for i, (u, y) in enumerate(zip(sus, ys)):
                            bad = label != uf.name
                            want = None
                            if not bad:
                                want = t_reading("point", label, t_abs(u.name, y))
                                sc = abs(y * float(t_size(u.name) / t_size(label))) + abs(float(t_abs(u.name, 0) / t_size(label))) + abs(float(t_abs(label, 0) / t_size(label)))
                                bad = any(not t_near(v, want, sc) for v in vs[i::3][:rep_n])
                            if bad:
                                chk.fail(f"wrong-value|coerce|{uf.shape}|{u.shape}",
                                         f"{code.split('= ', 1)[1]} with b = {b_src}: element {i} became {vs[i]} [{label}]; the affine map to {uf.name} gives {None if want is None else float(want)}",
                                         {"python": snippet(guarded(f"b = {b_src}\n") + f"{code}\n"
                                                            f"assert repr(r.units) == {uf.name!r}, r\n"
                                                            f"vs = [float(v) for v in np.asarray(r){'.T' if fname == 'arrays' else ''}.ravel()]\n"
                                                            f"for i, (n, y) in enumerate({[(u.name, y) for u, y in zip(sus, ys)]!r}):\n"
                                                            f"    want = t_reading('point', {uf.name!r}, t_abs(n, y))\n"
                                                            f"    sc = abs(y * float(t_size(n) / t_size({uf.name!r}))) + abs(float(t_abs(n, 0) / t_size({uf.name!r}))) + abs(float(t_abs({uf.name!r}, 0) / t_size({uf.name!r})))\n"
                                                            f"    assert t_near(vs[i], want, sc), (i, r, float(want))\n"), "form": fname})
                                break
                    else:
                        outcomes[fname] = res
                ask(f"c08.coerce\t{seqwire}", ("coerce", sus, ys, outcomes))
            # -- additive forms with the sequence on either side
            mixed_r = t_different_offset_scales(u0.name, uf.name)
            for op, forms, opc in (("add", SEQ_ADD, "c08.seqadd"), ("sub", SEQ_SUB, "c08.seqsub")):
                outcomes = {"left": {}, "right": {}}
                for side, fname, code in forms:
                    res = run_form(code, mk("a", xs0, u0.spelling), mkb())
                    chk.case(("seq", op, side, fname, u0.name, tuple(u.name for u in sus)))
                    body = f"def f():\n    {code.replace('; ', chr(10) + '    ')}\n    return r\nbad, r = raises(f)\n"
                    if res[0] == "ok":
                        r = res[1]
                        label = repr(getattr(r, "units", None))
                        vs = vals(r)
                        outcomes[side][fname] = ("ok", label, vs)
                        if mixed_r:
                            chk.fail(f"no-refusal|seq-{op}|{u0.shape}|{uf.shape}",
                                     f"{code} with a in {u0.spelling} and b = {b_src} (two different offset scales) returned {r!r}",
                                     {"python": snippet(src + RAISES_SRC + body + "assert bad, ('two different offset scales combined without an error', r)\n"), "form": fname})
                            continue
                        for i in claim:
                            u = sus[i]
                            args = (op, u0.name, [xs0[i]], u.name, [ys[i]]) if side == "right" else (op, u.name, [ys[i]], u0.name, [xs0[i]])
                            xk = abs(float(t_abs(u.name, 0))) + abs(float(t_abs(uf.name, 0)))  # the element went through u -> uf
                            try:
                                msg = t_check_additive(*args, label, [vs[i]], xk) if len(vs) == 3 else f"{len(vs)} results for 3 elements"
                            except ValueError as e:
                                msg = f"result labelled {label}: {e}"
                            if msg:
                                chk.fail(f"wrong-value|seq-{op}|{side}|{u0.shape}|{uf.shape}|{u.shape}", f"{code} with a = {a_src}, b = {b_src}: element {i}: {msg}",
                                         {"python": snippet(src + RAISES_SRC + body + "if not bad:\n    vs = [float(v) for v in np.asarray(r).ravel()]\n"
                                                            f"    m = t_check_additive(*{args!r}, repr(r.units), [vs[{i}]], {xk!r})\n    assert m is None, m\n"), "form": fname})
                                break
                    else:
                        outcomes[side][fname] = res
                for side in ("right", "left"):
                    ask(f"{opc}\t{side}\t{u0.wire}\t" + ",".join(str(f2b(x)) for x in xs0) + f"\t{seqwire}", ("seqbin", op, side, u0, sus, xs0, ys, outcomes[side]))
            # -- comparisons
            outcomes = {"left": {}, "right": {}}
            for side, fname, code, pyop in SEQ_CMP:
                res = run_form(code, mk("a", xs0, u0.spelling), mkb())
                chk.case(("seq-cmp", side, fname, u0.name, tuple(u.name for u in sus)))
                body = f"def f():\n    {code}\n    return r\nbad, r = raises(f)\n"
                if res[0] == "ok":
                    got = [bool(x) for x in np.asarray(res[1]).ravel()]
                    outcomes[side][fname] = ("ok", pyop, got)
                    if mixed_r:
                        chk.fail(f"no-refusal|seq-compare|{u0.shape}|{uf.shape}", f"{code} with a in {u0.spelling} and b = {b_src} (two different offset scales) returned {got}",
                                 {"python": snippet(src + RAISES_SRC + body + "assert bad, r\n"), "form": fname})
                    elif u0.kind == uf.kind and len(got) == 3:
                        den = t_dif if u0.kind == "diff" else t_abs
                        for i in claim:
                            p, q = den(u0.name, xs0[i]), den(sus[i].name, ys[i])
                            if side == "left":
                                p, q = q, p
                            if abs(float(p - q)) <= 1e-9 * (abs(float(p)) + abs(float(q))):
                                chk.count("cmp-borderline-skipped")
                                continue
                            if PYCMP[pyop](p, q) != got[i]:
                                chk.fail(f"wrong-value|seq-compare|{side}|{u0.shape}|{uf.shape}|{sus[i].shape}",
                                         f"{code} with a = {a_src}, b = {b_src}: element {i} returned {got[i]}; in kelvin {float(p)} vs {float(q)}",
                                         {"python": snippet(src + RAISES_SRC + body + f"assert bad or bool(np.asarray(r).ravel()[{i}]) == {PYCMP[pyop](p, q)!r}, r\n"), "form": fname})
                                break
                else:
                    outcomes[side][fname] = res
            for side in ("right", "left"):
                ask(f"c08.seqcmp\t{side}\t{u0.wire}\t" + ",".join(str(f2b(x)) for x in xs0) + f"\t{seqwire}", ("seqcmp", side, u0, sus, xs0, ys, outcomes[side]))
    chk.extra["sequence_cases"] = nseq


    # ---- reductions with a start value that carries units (`initial=`), all ordered pairs -------------
    # q + a[0] + a[1] + ... / q - a[0] - ...: the reduction form of point +/- difference, difference + point,
    # difference +/- difference and point - point; data of one and of two readings
    RED_INIT = [("add", "np.add.reduce(a, initial=q)"), ("add", "np.sum(a, initial=q)"), ("add", "a.sum(initial=q)"),
                ("sub", "np.subtract.reduce(a, initial=q)")]
    for u in units:
        for ui in units:
            for n in (1, 2):
                xs = readings(rng, n)
                xi = readings(rng, 1)[0]
                outcomes = {"add": {}, "sub": {}}
                for op, expr in RED_INIT:
                    a = unyt_array(xs, u.spelling)
                    q = unyt_quantity(xi, ui.spelling)
                    try:
                        res = ("ok", eval(expr, {"np": np, "a": a, "q": q}))
                    except Exception as e:  # noqa: BLE001
                        res = ("err", core.exc_name(e))
                    chk.case(("reduce-initial", expr, u.name, ui.name, n))
                    chk.count(f"reduce-initial:{u.kind}-data,{ui.kind}-start")
                    if res[0] == "ok":
                        r = res[1]
                        label = repr(getattr(r, "units", None))
                        v = vals(r)[0]
                        outcomes[op][expr] = ("ok", label, v)
                        try:
                            msg = t_check_reduce_initial(op, u.name, xs, ui.name, xi, label, v)
                        except ValueError as e:
                            msg = f"result labelled {label}: {e}"
                        if msg:
                            fam = "add.reduce" if op == "add" else "subtract.reduce"
                            chk.fail(f"wrong-value|{fam}-initial|{u.shape}|{ui.shape}", f"{expr} with a = {xs} [{u.spelling}], q = {xi} [{ui.spelling}]: {msg}",
                                     {"python": snippet(guarded(f"a = unyt_array({xs!r}, {u.spelling!r})\nq = unyt_quantity({xi!r}, {ui.spelling!r})") +
                                                        f"try:\n    r = {expr}\nexcept Exception:\n    raise SystemExit(0)  # refused: nothing returned\n"
                                                        f"m = t_check_reduce_initial({op!r}, {u.name!r}, {xs!r}, {ui.name!r}, {xi!r}, repr(r.units), float(np.asarray(r).ravel()[0]))\nassert m is None, m\n"),
                                      "form": expr})
                    else:
                        outcomes[op][expr] = res
                for op in ("add", "sub"):
                    ask(f"c08.redinit\t{op}\t{u.wire}\t" + ",".join(str(f2b(x)) for x in xs) + f"\t{ui.wire}\t{f2b(xi)}",
                        ("redinit", op, u, ui, xs, xi, outcomes[op]))

    # ---- correspondence: ask the model ---------------------------------------------------------
    try:
        replies = core.Model("drv_c08").ask([m[0] for m in model])
    except Exception as e:  # noqa: BLE001
        replies = []
        chk.disagree("driver", repr(e))
    for (line, exp), rep in zip(model, replies):
        compare(chk, line, exp, rep)
    # the shared conversion model (C03's `getConversionFactor`) must agree with the temperature model
    try:
        reps = core.Model("drv_c08").ask([s[0] for s in shared])
    except Exception as e:  # noqa: BLE001
        reps = []
        chk.disagree("driver", repr(e))
    for (line, (u, v, x, f, o, got, sc)), rep in zip(shared, reps):
        chk.count("model:convunits")
        if rep[0] != "ok" or got is None:
            chk.disagree("convunits", f"{u.name}->{v.name}: {rep}")
            continue
        if not core.close(core.b2f(rep[1]), f) or abs(core.b2f(rep[3]) - got) > 1e-9 * (abs(got) + sc):
            chk.disagree("convunits", f"{u.name}->{v.name} x={x}: shared model {core.b2f(rep[1])}, {core.b2f(rep[3])} vs unyt {f}, {got}")

    rule = ("all ordered pairs of the temperature units (K, R, degC, degF, delta_degC, delta_degF and the SI-prefixed K/degC/delta_degC: "
            "prefixes m,k,da,µ in the quick tier, all 22 in the thorough tier) x {add, subtract} x {operator, ufunc, in-place, out=} x {array, quantity} "
            "+ 9 comparison forms + {multiply, divide, floor_divide} x {operator, ufunc, in-place} + 4 conversion routes; every unit x 19 power/root/product forms, "
            "4 reductions, diff/ediff1d/ptp, x/÷ with a number, a dimensionless quantity and metres on either side; alternative spellings; "
            "readings: the regression witness (1, 50) plus seeded values; distinct = distinct (form, unit0, unit1, operand kind); "
            "non-trivial = a temperature-specific branch is involved: binary cases whose operands are not the same offset-free unit, "
            "power forms on offset units, every reduction / diff / spelling case, conversions between different units")
    return chk.finish(rule)


def fclose(a, b, scale=0.0):
    return core.close(a, b) or abs(a - b) <= 1e-12 * scale


def compare(chk, line, exp, rep):
    """model reply vs what the real library did"""
    kind = exp[0]
    chk.count("model:" + line.split("\t")[0])
    if rep == ["bad-op"]:
        chk.disagree(line.split("\t")[0], f"model rejects the operation: {line!r}")
        return
    if kind == "row":
        _, b, s, o, p = exp
        if rep[0] != "ok" or core.b2f(rep[1]) != s or core.b2f(rep[2]) != o or (rep[3] == "1") != p:
            chk.disagree("c08.row", f"row {b}: generated {rep} vs live ({s}, {o}, {p})")
    elif kind == "prefix":
        _, p, v = exp
        if rep[0] != "ok" or core.b2f(rep[1]) != v:
            chk.disagree("c08.prefix", f"prefix {p}: generated {rep} vs live {v}")
    elif kind == "rule":
        _, uf, r = exp
        if rep != ["ok", r]:
            chk.disagree("c08.rule", f"rule of {uf}: generated {rep} vs live {r}")
    elif kind == "unit":
        u = exp[1]
        from unyt.unit_systems import _split_prefix

        sp = _split_prefix(str(u.unit), u.unit.registry.lut)[0] != ""
        ok = (rep[0] == "ok" and core.close(core.b2f(rep[1]), u.unit.base_value) and core.b2f(rep[2]) == float(u.unit.base_offset)
              and rep[3] == repr(u.unit) and rep[4] == str(u.unit) and (rep[5] == "1") == sp)
        if not ok:
            chk.disagree("c08.unit", f"{u.name}: model {rep} vs unyt ({u.unit.base_value}, {u.unit.base_offset}, {u.unit!r}, {u.unit!s}, split={sp})")
    elif kind == "additive":
        _, op, u0, u1, i, x0, x1, outcomes = exp
        for (okind, fname), oc in outcomes.items():
            if okind == "q" and i > 0:
                continue
            if oc[0] == "err":
                if rep[0] != "err" or rep[1] != oc[1]:
                    chk.disagree("c08." + op, f"{u0.name} {op} {u1.name} [{fname}/{okind}]: unyt raises {oc[1]}, model {rep}")
            else:
                _, label, vs = oc
                if rep[0] != "ok":
                    chk.disagree("c08." + op, f"{u0.name} {op} {u1.name} [{fname}/{okind}]: unyt returns {vs} [{label}], model {rep}")
                    continue
                mlabel = rep[1].replace(":", "")
                mv = core.b2f(rep[2])
                if mlabel != label or not fclose(mv, vs[i], abs(x0) + abs(vs[i])):
                    chk.disagree("c08." + op, f"{x0} [{u0.name}] {op} {x1} [{u1.name}] [{fname}/{okind}]: unyt {vs[i]} [{label}], model {mv} [{mlabel}]")
    elif kind == "cmp":
        _, u0, u1, i, x0, x1, outcomes = exp
        for fname, oc in outcomes.items():
            if oc[0] == "err":
                if rep[0] != "err" or rep[1] != oc[1]:
                    chk.disagree("c08.cmp", f"{u0.name} {fname} {u1.name}: unyt raises {oc[1]}, model {rep}")
            else:
                _, pyop, got = oc
                if rep[0] != "ok":
                    chk.disagree("c08.cmp", f"{u0.name} {fname} {u1.name}: unyt returns {got}, model {rep}")
                    continue
                p, q = core.b2f(rep[1]), core.b2f(rep[2])
                if PYCMP[pyop](p, q) != got[i]:
                    chk.disagree("c08.cmp", f"{x0} [{u0.name}] {fname} {x1} [{u1.name}]: unyt {got[i]}, model compares {p} with {q}")
    elif kind == "floordiv":
        _, u0, u1, i, x0, x1, outcomes = exp
        for fname, oc in outcomes.items():
            if oc[0] == "err":
                if rep[0] != "err" or rep[1] != oc[1]:
                    chk.disagree("c08.floordiv", f"{u0.name} // {u1.name} [{fname}]: unyt raises {oc[1]}, model {rep}")
            else:
                _, bv, vs = oc
                if rep[0] != "ok":
                    chk.disagree("c08.floordiv", f"{u0.name} // {u1.name} [{fname}]: unyt returns {vs}, model {rep}")
                    continue
                ms, mb = core.b2f(rep[1]), core.b2f(rep[4])
                raw = float(np.floor_divide(x0, mb))
                if not fclose(vs[i] * bv, raw * ms, abs(raw * ms)):
                    chk.disagree("c08.floordiv", f"{x0} [{u0.name}] // {x1} [{u1.name}] [{fname}]: unyt {vs[i]} x {bv}, model floor({x0} / {mb}) x {ms}")
    elif kind in ("mul", "div"):
        _, u0, u1, xs0, xs1, outcomes = exp
        for fname, oc in outcomes.items():
            if oc[0] == "err":
                if rep[0] != "err" or rep[1] != oc[1]:
                    chk.disagree("c08." + kind, f"{u0.name} {kind} {u1.name} [{fname}]: unyt raises {oc[1]}, model {rep}")
            else:
                _, bv, vs = oc
                if rep[0] != "ok":
                    chk.disagree("c08." + kind, f"{u0.name} {kind} {u1.name} [{fname}]: unyt returns {vs}, model {rep}")
                    continue
                ms = core.b2f(rep[1])
                for x0, x1, v in zip(xs0, xs1, vs):
                    raw = x0 * x1 if kind == "mul" else x0 / x1
                    if not fclose(v * bv, raw * ms, abs(raw * ms)):
                        chk.disagree("c08." + kind, f"{x0} [{u0.name}] {kind} {x1} [{u1.name}] [{fname}]: unyt {v} x {bv}, model {raw} x {ms}")
                        break
    elif kind == "scalar":
        _, op, u, expr, res = exp
        if res[0] == "err":
            if rep[0] != "err" or rep[1] != res[1]:
                chk.disagree("c08." + op, f"{expr}: unyt raises {res[1]}, model {rep}")
        elif rep[0] != "ok":
            chk.disagree("c08." + op, f"{expr}: unyt returns {res[1]!r}, model {rep}")
    elif kind == "unary":
        _, u, expr, res = exp
        if res[0] == "err":
            if rep[0] != "err" or rep[1] != res[1]:
                chk.disagree("c08.unary", f"{expr} [{u.name}]: unyt raises {res[1]}, model {rep}")
        elif rep[0] != "ok":
            chk.disagree("c08.unary", f"{expr} [{u.name}]: unyt returns {res[1]!r}, model {rep}")
        else:
            r = res[1]
            if not core.close(core.b2f(rep[1]), float(r.units.base_value), rtol=1e-9) or float(r.units.base_offset) != core.b2f(rep[2]):
                chk.disagree("c08.unary", f"{expr} [{u.name}]: unyt unit ({r.units.base_value}, {r.units.base_offset}), model ({core.b2f(rep[1])}, {core.b2f(rep[2])})")
    elif kind == "reduce":
        _, u, expr, res = exp
        if res[0] == "err":
            if rep[0] != "err" or rep[1] != res[1]:
                chk.disagree("c08.reduce", f"{expr} [{u.name}]: unyt raises {res[1]}, model {rep}")
        elif rep[0] != "ok" or rep[1].replace(":", "") != repr(res[1].units):
            chk.disagree("c08.reduce", f"{expr} [{u.name}]: unyt returns {res[1]!r}, model {rep}")
    elif kind == "diff":
        _, u, expr, res = exp
        if res[0] == "err":
            if rep[0] != "err" or rep[1] != res[1]:
                chk.disagree("c08.diff", f"{expr} [{u.name}]: unyt raises {res[1]}, model {rep}")
        elif rep[0] != "ok" or rep[1].replace(":", "") != repr(res[1].units) or not fclose(core.b2f(rep[2]), vals(res[1])[0], 1e3):
            chk.disagree("c08.diff", f"{expr} [{u.name}]: unyt returns {res[1]!r}, model {rep}")
    elif kind == "coerce":
        _, sus, ys, outcomes = exp
        names = [u.name for u in sus]
        for fname, oc in outcomes.items():
            if oc[0] == "err":
                if rep[0] != "err" or rep[1] != oc[1]:
                    chk.disagree("c08.coerce", f"unyt_array({names}) [{fname}]: unyt raises {oc[1]}, model {rep}")
                continue
            _, label, vs = oc
            if rep[0] != "ok" or rep[1].replace(":", "") != label:
                chk.disagree("c08.coerce", f"unyt_array({names}) [{fname}]: unyt returns {vs} [{label}], model {rep}")
                continue
            mv = [core.b2f(int(b)) for b in rep[2].split(",")]
            if len(mv) != len(vs) or not all(fclose(m, v, abs(v) + abs(y) + 1e3) for m, v, y in zip(mv, vs, ys)):
                chk.disagree("c08.coerce", f"unyt_array of {list(zip(ys, names))} [{fname}]: unyt {vs} [{label}], model {mv}")
    elif kind == "seqbin":
        _, op, side, u0, sus, xs0, ys, outcomes = exp
        names = [u.name for u in sus]
        for fname, oc in outcomes.items():
            what = f"{u0.name} {op} sequence {names} on the {side} [{fname}]"
            if oc[0] == "err":
                if rep[0] != "err" or rep[1] != oc[1]:
                    chk.disagree("c08.seq" + op, f"{what}: unyt raises {oc[1]}, model {rep}")
                continue
            _, label, vs = oc
            if rep[0] != "ok" or rep[1].replace(":", "") != label:
                chk.disagree("c08.seq" + op, f"{what}: unyt returns {vs} [{label}], model {rep}")
                continue
            mv = [core.b2f(int(b)) for b in rep[2].split(",")]
            if len(mv) != len(vs) or not all(fclose(m, v, abs(v) + abs(x) + abs(y) + 1e3) for m, v, x, y in zip(mv, vs, xs0, ys)):
                chk.disagree("c08.seq" + op, f"{what} x={xs0} y={ys}: unyt {vs} [{label}], model {mv}")
    elif kind == "seqcmp":
        _, side, u0, sus, xs0, ys, outcomes = exp
        names = [u.name for u in sus]
        for fname, oc in outcomes.items():
            what = f"{u0.name} {fname} sequence {names} on the {side}"
            if oc[0] == "err":
                if rep[0] != "err" or rep[1] != oc[1]:
                    chk.disagree("c08.seqcmp", f"{what}: unyt raises {oc[1]}, model {rep}")
                continue
            _, pyop, got = oc
            if rep[0] != "ok":
                chk.disagree("c08.seqcmp", f"{what}: unyt returns {got}, model {rep}")
                continue
            ps = [core.b2f(int(b)) for b in rep[1].split(",")]
            qs = [core.b2f(int(b)) for b in rep[2].split(",")]
            for p, q, g in zip(ps, qs, got):
                if abs(p - q) <= 1e-9 * (abs(p) + abs(q)):
                    continue  # rounding decides
                if PYCMP[pyop](p, q) != g:
                    chk.disagree("c08.seqcmp", f"{what} x={xs0} y={ys}: unyt {got}, model compares {ps} with {qs}")
                    break
    elif kind == "redinit":
        _, op, u, ui, xs, xi, outcomes = exp
        for expr, oc in outcomes.items():
            what = f"{expr} with a = {xs} [{u.name}], q = {xi} [{ui.name}]"
            if oc[0] == "err":
                if rep[0] != "err" or rep[1] != oc[1]:
                    chk.disagree("c08.redinit", f"{what}: unyt raises {oc[1]}, model {rep}")
                continue
            _, label, v = oc
            if rep[0] != "ok":
                chk.disagree("c08.redinit", f"{what}: unyt returns {v} [{label}], model {rep}")
                continue
            mv = core.b2f(rep[2])
            if rep[1].replace(":", "") != label or not fclose(mv, v, abs(v) + sum(abs(x) for x in xs) + 1e3):
                chk.disagree("c08.redinit", f"{what}: unyt {v} [{label}], model {mv} [{rep[1]}]")
    elif kind == "conv":
        _, u, v, x, f, o, got, sc = exp
        if rep[0] != "ok" or got is None:
            chk.disagree("c08.conv", f"{u.name}->{v.name}: model {rep}, unyt {got}")
            return
        mf = core.b2f(rep[1])
        mo = None if rep[2] == "none" else core.b2f(rep[2])
        mr = core.b2f(rep[3])
        ok = core.close(mf, f) and ((mo is None) == (o is None))
        if ok and mo is not None:
            ok = abs(mo - o) <= 1e-12 * (abs(o) + sc)
        if ok:
            ok = abs(mr - got) <= 1e-12 * (abs(got) + sc)
        if not ok:
            chk.disagree("c08.conv", f"{u.name}->{v.name} x={x}: model ({mf}, {mo}, {mr}) vs unyt ({f}, {o}, {got})")
