"""C06 — NumPy functions compute the same numbers on quantities as on bare arrays.

Pieces (see design.d/C06.md):
  * proof: UnytProofs.C06 over the regenerated Generated/Handlers.lean (translator plugin
    tools/extract.d/c06_handlers.py: dispatcher tables, ast pass, dynamic trace per handler × template);
  * correspondence: the compiled model (drv_c06) predicts, for fresh instantiations of every handled
    template, the kernel call `Np.run` makes; compared with the call recorded on the real library;
    dispatcher routes of the model against the live tables and observed behaviour;
  * direct oracles (never consult the model):
      O1 differential: every function/method × template × shape × dtype × out-mode × unit assignment ×
         seeded data: result (element-wise), shape, dtype kind, out= buffers, operands after the call,
         written bytes — bit for bit against the same call on stripped inputs;
      O2 forwarding: the kernel a handler really invokes is the requested function with the caller's
         arguments (recording proxy in place of `unyt._array_functions.np`).
"""
import json
import multiprocessing
import os
import re

import core

PROOF_MODULES = ["UnytProofs.C06", "UnytProofs.C06Alias", "UnytProofs.C06Methods"]
HARNESS = os.path.dirname(os.path.abspath(__file__))

UNIT_SETS = [("m", "s", "kg"), ("dimensionless", "dimensionless", "dimensionless"), ("cm", "cm", "cm")]


def _setup():
    import warnings

    warnings.simplefilter("ignore")
    import numpy as np

    np.seterr(all="ignore")


# ---------------------------------------------------------------------------------------
# O1: differential pass (one worker = one (data seed, unit set))


def diff_pass(job):
    dseed, units = job
    _setup()
    import npcatalog as C
    import c06_alias as A
    import c06_diff as D
    import unyt._array_functions as AF

    A.register()
    handled = {C.name_of(f) for f in AF._HANDLED_FUNCTIONS}
    stats = {}
    fails = {}
    compared = set()
    per_func = {}
    samples = []
    for t in C.templates():
        fid = C.canonical_func(t)
        for sc in t.shapes:
            for dk in t.dtypes:
                for om in (("unyt", "bare") if t.out_form else ("unyt",)):
                    st, d = D.compare(t, dk, sc, dseed, om, units)
                    stats[st] = stats.get(st, 0) + 1
                    pf = per_func.setdefault(fid, {})
                    pf[st] = pf.get(st, 0) + 1
                    if st in ("same", "differ"):
                        compared.add((t.tid, sc, dk, om, units[0]))
                        if len(samples) < 3 and st == "same" and t.variant not in ("pos",):
                            samples.append({"call": f"{t.func}({t.instantiate(dk, sc, dseed).describe()})", "units": list(units), "status": st})
                    whats = []
                    if st == "differ":
                        whats = sorted({w for w, _ in d})
                        detail = "; ".join(x for _w, x in d)[:400]
                    elif st == "numpy-raises":
                        if t.out_form and dk == "i" and d.startswith("UFuncTypeError") and "Cannot cast" in d:
                            whats = ["int-out-retyped"]
                        else:
                            whats = ["numpy-raises"]
                        detail = "NumPy raises on the bare data (" + d[:200] + ") but the call on quantities returns"
                    ak = A.kind_of(t)
                    if ak:
                        stats[f"{ak}:{st}"] = stats.get(f"{ak}:{st}", 0) + 1
                    for w in whats:
                        if ak == "mixed" and w == "values":
                            # operands in DIFFERENT units: the units-guarded constant return answers
                            w = "values@mixed-units"
                        if w == "int-out-retyped" and fid not in handled:
                            key = "ufunc-out|int-out-retyped"
                        else:
                            key = f"{fid}|{w}"
                        if key not in fails:
                            fails[key] = dict(tid=t.tid, dk=dk, sc=sc, seed=dseed, om=om, units=list(units), what=w, detail=detail,
                                              call=f"{t.func}({t.instantiate(dk, sc, dseed).describe()})")
    return dict(stats=stats, fails=fails, compared=sorted(compared), per_func=per_func, samples=samples)


# ---------------------------------------------------------------------------------------
# O2 + correspondence: forwarding pass


def justified(fwd, p, by_value, seen_ok=True):
    """mirror of Np.justified on the static column `fwd` (c06_trace.static_forward)"""
    star = p not in fwd["named"] and (fwd["star_pos"] or fwd["star_kw"])
    if by_value:
        return p in fwd["direct"] or star or (p in fwd["derived"] and seen_ok)
    return p in fwd["derived"] or star


def record_defects(r, fwd=None, seen=None):
    """defects of an observed record — same vocabulary as the Lean `defects ++ provenanceDefects`,
    computed here from the observation (and, when `fwd` is given, the ast column) alone"""
    out = []
    calls = r["calls"]
    if not calls:
        if not r["outcome"].startswith("raise"):
            out.append("nocall")
        return out
    if calls[0][1] != r["func"]:
        out.append("calls:" + calls[0][1])
    if len(calls) > 1:
        out.append("multicall")
    for p, v in r["params"]:
        if v not in ("same", "sameRaw"):
            out.append(f"{v}:{p}")
        elif fwd is not None:
            bv = p in r.get("by_value", [])
            if not justified(fwd, p, bv, True if seen is None else seen.get(p, 0) >= 2):
                out.append(f"unjustified:{p}")
    if r["post"] == "changed":
        out.append("post:changed")
    return out


def forwarding_pass(dseed):
    _setup()
    import npcatalog as C
    import c06_alias as A
    import c06_trace as TR
    import unyt._array_functions as AF

    A.register()
    handled = {C.name_of(f) for f in AF._HANDLED_FUNCTIONS}
    recs = []
    entered_ok = {}
    seen_other = {}
    for t in C.templates("function"):
        fid = C.canonical_func(t)
        if fid not in handled:
            # observe the dispatcher once per function: no handler of that name is entered
            if fid in seen_other:
                continue
            for sc in t.shapes:
                r = TR.trace_case(t, t.dtypes[0], sc, dseed)
                if r is not None:
                    seen_other[fid] = (r["outcome"], fid in r["entered"])
                    break
            continue
        for sc in t.shapes:
            for dk in t.dtypes:
                for om in (("unyt", "bare") if t.out_form else ("unyt",)):
                    r = TR.trace_case(t, dk, sc, dseed, om)
                    if r is None or not r["entered"] or r["entered"][0] != fid:
                        continue
                    entered_ok[fid] = True
                    r["case"] = (t.tid, dk, sc, om)
                    if A.kind_of(t):
                        r["alias"] = (A.kind_of(t), A.slots_of(t.instantiate(dk, sc, dseed)))
                    recs.append(r)
    return dict(recs=recs, entered=sorted(entered_ok), other=seen_other)


def observe_dispatch(uni):
    """call unyt_array.__array_function__ directly for every dispatcher function, with and without a
    foreign type among `types`: {(f, foreign): 'raised' (NotImplemented → TypeError) | 'handler' | 'kernel'}"""
    import warnings

    import numpy as np
    import unyt

    import npcatalog as C
    import c06_trace as TR

    class Foreign(np.ndarray):
        pass

    obs = {}
    for f in uni:
        func = C.universe()[f]
        for foreign in (False, True):
            x = unyt.unyt_array(np.arange(4.0).reshape(2, 2) + 1.0, "m")
            types = (unyt.unyt_array, Foreign) if foreign else (unyt.unyt_array, np.ndarray)
            with TR.recording() as rec, warnings.catch_warnings():
                warnings.simplefilter("ignore")
                try:
                    r = x.__array_function__(func, types, (x,), {})
                except BaseException:  # noqa: BLE001
                    r = "exception"
            if r is NotImplemented:
                obs[(f, foreign)] = "raised"
            elif rec.entered and rec.entered[0] == f:
                obs[(f, foreign)] = "handler"
            else:
                obs[(f, foreign)] = "kernel"
    return obs


def observe_default_untouched():
    """a function object unknown to both tables goes down the default path: its `_implementation`
    must receive the very objects (args and kwargs) the caller passed"""
    import numpy as np
    import unyt

    got = {}

    class Probe:
        __name__ = "probe"

        @staticmethod
        def _implementation(*a, **k):
            got["a"], got["k"] = a, k
            return "probe-result"

    x = unyt.unyt_array(np.arange(3.0), "m")
    s1, s2 = object(), object()
    r = x.__array_function__(Probe, (unyt.unyt_array,), (x, s1), {"key": s2})
    return (r == "probe-result" and len(got.get("a", ())) == 2 and got["a"][0] is x and got["a"][1] is s1
            and list(got.get("k", {})) == ["key"] and got["k"]["key"] is s2)


def fwd_replay(tid, dk, sc, seed, om, defect):
    return (
        "import sys, warnings\nwarnings.simplefilter('ignore')\n"
        f"sys.path.insert(0, {HARNESS!r})\n"
        "import numpy as np\nnp.seterr(all='ignore')\n"
        "import npcatalog as C, c06_trace as TR, c06 as H, c06_alias as A\nA.register()\n"
        f"t = [t for t in C.templates() if t.tid == {tid!r}][0]\n"
        f"r = TR.trace_case(t, {dk!r}, {sc!r}, {seed!r}, {om!r})\n"
        "import unyt._array_functions as AF\n"
        "f = C.resolve(t.func)\n"
        "d = H.record_defects(r, TR.static_forward(f, AF._HANDLED_FUNCTIONS[f]))\n"
        "print('call:', t.func, '(', t.instantiate(" + f"{dk!r}, {sc!r}, {seed!r}" + ").describe(), ')')\n"
        "print('kernel calls:', r['calls'], 'parameters:', r['params'], 'post:', r['post'], 'defects:', d)\n"
        f"assert {defect!r} not in d, d\n"
    )


def parse_render(s):
    m = re.match(r"^([^()]*)\((.*)\)$", s)
    if not m:
        return None, None
    d = {}
    if m.group(2):
        for item in m.group(2).split(","):
            k, _, v = item.partition("=")
            d[k] = v
    return m.group(1), d


# ---------------------------------------------------------------------------------------


def run(tier, seed):
    _setup()
    import npcatalog as C
    import c06_alias as A
    import c06_diff as D
    import unyt._array_functions as AF

    A.register()
    chk = core.Check("C06", tier, seed)
    chk.proof = core.prove("C06", PROOF_MODULES, extra_targets=("drv_c06",), tier=tier)
    rng = chk.rng
    try:
        X = json.load(open(os.path.join(core.BUILD, "extract_c06_handlers.json"), encoding="utf-8"))
    except Exception as e:  # noqa: BLE001
        X = None
        chk.disagree("translator", f"build/extract_c06_handlers.json unreadable: {e!r}")

    # ------------------------------------------------------------ catalogue covers the universe
    missing_f, missing_m = C.coverage()
    if missing_f or missing_m:
        chk.disagree("catalogue", f"no template for functions {missing_f} methods {missing_m}")
    live_handled = sorted(C.name_of(f) or "?" + getattr(f, "__name__", "") for f in AF._HANDLED_FUNCTIONS)
    live_unsup = sorted(C.name_of(f) or "?" + getattr(f, "__name__", "") for f in AF._UNSUPPORTED_FUNCTIONS)
    uni = sorted(C.universe())

    # ------------------------------------------------------------ model: tables read back, routes, exclusions
    model = None
    try:
        model = core.Model("drv_c06")
        rep = model.ask(["c06.dump.counts", "c06.exclusions"] + [f"c06.route\t{f}" for f in uni] + ["c06.route\tnumpy.not_a_function"])
    except Exception as e:  # noqa: BLE001
        rep = None
        chk.disagree("driver", repr(e))
    excl = set()
    if rep is not None:
        counts = rep[0]
        want = ["ok", str(len(uni)), str(len(live_unsup)), str(len(live_handled)), str(len(live_handled)), str(len(X["rows"]) if X else -1)]
        if counts != want:
            chk.disagree("c06.dump.counts", f"model tables {counts} live {want}")
        excl = set(rep[1][1].split(";")) if len(rep[1]) > 1 and rep[1][1] else set()
        for f, r in zip(uni, rep[2:2 + len(uni)]):
            live = "unsupported" if f in live_unsup else "handled" if f in live_handled else "default"
            chk.case(("route", f))
            chk.count("route:" + live)
            if r != ["ok", live]:
                chk.disagree("c06.route", f"{f}: model {r} live tables {live}")
        if rep[-1] != ["ok", "unknown"]:
            chk.disagree("c06.route", f"non-universe name routed: {rep[-1]}")
        for f in live_handled + live_unsup:
            if f not in uni:
                chk.disagree("c06.universe", f"{f} is in unyt's tables but not a dispatcher of this NumPy")
    if model is not None:
        obs = observe_dispatch(uni)
        try:
            dr = model.ask([f"c06.dispatch\t{f}\t{1 if fo else 0}" for (f, fo) in obs])
        except Exception as e:  # noqa: BLE001
            dr = []
            chk.disagree("driver", repr(e))
        for ((f, fo), o), r in zip(obs.items(), dr):
            chk.case(("dispatch", f, fo))
            chk.count("dispatch:" + o)
            if len(r) < 2 or r[1] != o:
                chk.disagree("c06.dispatch", f"{f} foreign={fo}: model {r} observed {o}")
    try:
        chk.case(("dispatch", "probe"))
        if not observe_default_untouched():
            chk.disagree("c06.dispatch", "default path: a function outside both tables did not receive the caller's args/kwargs objects untouched")
    except Exception as e:  # noqa: BLE001
        chk.disagree("c06.dispatch", f"default-path probe raised {e!r}")
    known = [k for k in core.load_known() if k["property"] == "C06" and k.get("status") == "known"]
    known_fwd = {k["key"] for k in known if k.get("kind") == "forwarding"}
    if rep is not None and excl != known_fwd:
        chk.disagree("exclusions", f"Ref.exclC06 and the forwarding findings of known_findings.d/C06.json differ: "
                                   f"only in Lean {sorted(excl - known_fwd)}, only in findings {sorted(known_fwd - excl)}")

    # ------------------------------------------------------------ static (ast) facts as direct observations
    if X:
        for s in X["statics"]:
            f = s["implements"]
            for g in s["static_calls"]:
                if g != f:
                    chk.fail(f"{f}|calls:{g}", f"the handler of {f} references {g}._implementation",
                             {"python": "import inspect, unyt._array_functions as AF, numpy as np\n"
                                        f"h = AF._HANDLED_FUNCTIONS[{_expr(f)}]\nsrc = inspect.getsource(h)\nprint(src)\n"
                                        f"assert {g.replace('numpy', 'np', 1) + '._implementation'!r} not in src\n"})
            if not s["raises_only"]:
                for p in s["static_dropped"]:
                    chk.fail(f"{f}|dropped:{p}", f"the handler of {f} accepts but can never forward numpy parameter {p}",
                             {"python": "import sys\n" f"sys.path.insert(0, {HARNESS!r})\n"
                                        "import c06_trace as TR, npcatalog as C, unyt._array_functions as AF, numpy as np, inspect\n"
                                        f"f = {_expr(f)}\nh = AF._HANDLED_FUNCTIONS[f]\nd = TR.static_dropped(f, h)\n"
                                        "print('numpy parameters the handler can never forward:', d)\n"
                                        f"assert {p!r} not in d\n"})

    # ------------------------------------------------------------ forwarding pass (O2 + correspondence)
    statics_by_func = {s_["implements"]: s_ for s_ in X["statics"]} if X else {}
    nfs = 1 if tier == "quick" else 3
    fseeds = [1000 + seed * 17 + i for i in range(nfs)]
    lines, expect = [], []
    alines, aexpect = [], []
    observed_entered = set()
    other = {}
    for fs in fseeds:
        fp = forwarding_pass(fs)
        observed_entered |= set(fp["entered"])
        other.update(fp["other"])
        for r in fp["recs"]:
            tid, dk, sc, om = r["case"]
            chk.count("forwarding-cases")
            st_ = statics_by_func.get(r["func"])
            al = r.get("alias")
            if al is not None:
                chk.count("forwarding-cases:" + al[0])
                if r["calls"] or not r["outcome"].startswith("raise"):
                    alines.append("\t".join(["c06.alias", r["func"], "1" if al[0] == "mixed" else "0"] + [f"{p}={i}" for p, i in al[1]]))
                    aexpect.append(r)
            if al is not None and al[0] == "mixed" and not r["calls"]:
                continue  # operands in different units: a units-guarded exit may answer (compared with the model below)
            for d in record_defects(r, st_["fwd"] if st_ else None, st_["by_value_seen"] if st_ else None):
                key = f"{r['func']}|{d}"
                chk.fail(key, f"{tid} [{dk},{sc},out={om}]: kernel calls {r['calls']} parameters {r['params']} post {r['post']}",
                         {"python": fwd_replay(tid, dk, sc, fs, om, d), "defect": d})
            if al is None and (r["calls"] or not r["outcome"].startswith("raise")):
                lines.append("\t".join(["c06.run", r["func"], r["variant"], r["sig"]] + [f"{k}={q}" for k, q in r["caller"]]))
                expect.append(r)
    # dispatcher as observed: handled functions enter their handler; others never do
    for f in live_handled:
        if f not in observed_entered:
            chk.count("handled-not-entered")  # every template of it raises before dispatch or needs no unyt argument
    for f, (outcome, entered) in other.items():
        if entered:
            chk.disagree("c06.route", f"{f} is not in _HANDLED_FUNCTIONS but a handler of that name ran")
        if f in live_unsup and outcome != "raise:TypeError":
            chk.disagree("c06.route", f"{f} is in _UNSUPPORTED_FUNCTIONS but a call on quantities gave {outcome}")
    if model is not None and lines:
        try:
            reps = model.ask(lines)
        except Exception as e:  # noqa: BLE001
            reps = []
            chk.disagree("driver", repr(e))
        for rp, r in zip(reps, expect):
            chk.count("model:c06.run")
            tid = r["case"][0]
            if rp[0] != "ok":
                chk.disagree("c06.run", f"{tid} sig {r['sig']}: model has no row ({rp}); observed {r['calls']}")
                continue
            if not r["calls"]:
                if rp[1] != "nokernel":
                    chk.disagree("c06.run", f"{tid}: model {rp[1:]} observed no kernel call")
                continue
            if rp[1] == "raised" and len(rp) >= 4:
                # the row says: every sampled instance raised inside the kernel
                if not r["outcome"].startswith("raise"):
                    chk.count("raised-row-returned-on-other-data")
                via, rendered, post = rp[2], rp[3], "none"
            elif rp[1] != "call":
                chk.disagree("c06.run", f"{tid}: model {rp[1:]} observed {r['calls']}")
                continue
            else:
                via, rendered, post = rp[2], rp[3], rp[4]
            tg, margs = parse_render(rendered)
            ok = (via == r["calls"][0][0] and tg == r["calls"][0][1] and r["render"] is not None and margs == r["render"])
            if ok and not r["outcome"].startswith("raise") and post not in (r["post"], "none"):
                ok = False
            if not ok:
                chk.disagree("c06.run", f"{tid} [{r['case'][1:]}]: model {via} {rendered} post={post}; observed {r['calls'][0]} {r['render']} post={r['post']}")

    # aliased / mixed-unit call forms: `Np.runGuarded` with the regenerated exits vs what the handler did
    if model is not None and alines:
        try:
            areps = model.ask(alines)
        except Exception as e:  # noqa: BLE001
            areps = []
            chk.disagree("driver", repr(e))
        for rp, r in zip(areps, aexpect):
            chk.count("model:c06.alias")
            pred = rp[1] if len(rp) > 1 else "?"
            obs = "call" if r["calls"] else "nokernel"
            if rp[0] != "ok" or pred != obs:
                chk.disagree("c06.alias", f"{r['case'][0]} [{r['case'][1:]}] slots {r['alias'][1]}: model (runGuarded with the regenerated exits) {rp}; "
                                          f"the handler made the kernel calls {r['calls']} (outcome {r['outcome']})")
            elif obs == "call" and (r["calls"][0][1] != r["func"]):
                chk.disagree("c06.alias", f"{r['case'][0]}: model predicts the kernel of {r['func']}; observed {r['calls']}")

    # ------------------------------------------------------------ pre-kernel decision logic (ast) as direct observation
    try:
        XA = json.load(open(os.path.join(core.BUILD, "extract_c06_alias.json"), encoding="utf-8"))
    except Exception as e:  # noqa: BLE001
        XA = None
        chk.disagree("translator", f"build/extract_c06_alias.json unreadable: {e!r}")
    if XA:
        chk.extra["alias_rows"] = len(XA["rows"])
        if model is not None:
            try:
                er = model.ask([f"c06.exits\t{f}" for f in XA["exits"]])
            except Exception as e:  # noqa: BLE001
                er = []
                chk.disagree("driver", repr(e))
            for (f, es), rp in zip(XA["exits"].items(), er):
                want = ";".join(f"{e['kind']}:{'true' if e['raises'] else 'false'}:{e['src'][:120]}" for e in es)
                got = rp[1] if len(rp) > 1 else ""
                chk.case(("exits", f))
                if rp[0] != "ok" or got != want:
                    chk.disagree("c06.exits", f"{f}: model table {rp} translator {want!r}")
        for f, es in XA["exits"].items():
            for e in es:
                chk.count("exit:" + e["kind"])
                if e["kind"] == "identity":
                    chk.fail(f"{f}|identity-test", f"the handler of {f} (or a helper it calls) decides on operand identity / memory overlap: `{e['src']}`"
                             " — f(x, x) need not compute what f(x, x.copy()) computes",
                             {"python": "import sys\n" f"sys.path.insert(0, {HARNESS!r})\n"
                                        "import numpy as np, c06_alias as A, unyt._array_functions as AF\n"
                                        f"es = A.static_exits(AF._HANDLED_FUNCTIONS[{_expr(f)}])\nprint(es)\n"
                                        "assert not [e for e in es if e['kind'] == 'identity'], es\n"})

    # ------------------------------------------------------------ ndarray-method overrides (array.py)
    try:
        methods_section(chk, model, known, seed)
    except Exception as e:  # noqa: BLE001
        chk.disagree("c06.method", f"method-override section raised {e!r}")

    # ------------------------------------------------------------ differential pass (O1)
    if tier == "quick":
        jobs = [(2000 + seed * 31 + i, UNIT_SETS[i % 2]) for i in range(4)] + [(2000 + seed * 31 + 4, UNIT_SETS[2])]
    else:
        jobs = [(3000 + seed * 101 + i, UNIT_SETS[i % 3]) for i in range(36)]
    with multiprocessing.get_context("fork").Pool(4) as pool:
        results = pool.map(diff_pass, jobs)
    per_func = {}
    for res in results:
        for st, n in res["stats"].items():
            chk.count("diff:" + st, n)
        for key in res["compared"]:
            chk.case(tuple(key))
        for f, d in res["per_func"].items():
            pf = per_func.setdefault(f, {})
            for st, n in d.items():
                pf[st] = pf.get(st, 0) + n
        for s in res["samples"]:
            if len(chk.samples) < 8:
                chk.samples.append(s)
        for key, f in res["fails"].items():
            t = [t for t in C.templates() if t.tid == f["tid"]][0]
            chk.fail(key, f"{f['call']} in units {f['units']} (out={f['om']}): {f['detail']}",
                     {"python": D.replay_snippet(t, f["dk"], f["sc"], f["seed"], f["om"], HARNESS, f["units"], f["what"]),
                      "call": f["call"], "observed_vs_numpy": f["detail"]})
    never = sorted(f for f, d in per_func.items() if not d.get("same") and not d.get("differ"))
    chk.extra["functions_in_universe"] = len(uni)
    chk.extra["ndarray_methods"] = len(C.ndarray_methods())
    chk.extra["templates"] = len(C.templates())
    chk.extra["functions_never_compared_because_unyt_always_raises"] = never
    chk.assumptions = [
        "the theorems cover WHICH computation a handler invokes (kernel, arguments, untouched result); NumPy's numeric kernels are an uninterpreted parameter",
        "UnitBlind (NumPy's implementation computes the same numbers on a subclass instance as on its bare data) is assumed for the default path and raw-forwarded parameters; bounded only by the differential run",
        "the regenerated rows describe the catalogue's call forms; other call forms are covered by the ast pass (never-forwarded parameters, referenced kernels, static provenance column) only",
        "labels are value-independent: a row is observed on data seeds 0 and 1 (translator) and on fresh seeds (read-back); `same` = the kernel received the caller's object/buffer (sentinel objects), by-value labels are backed by the static column or >= 2 distinct values; C06_partial_values generalises such a record to all values of the same call form — not proved from the source",
        "'handler h forwards p' is an observation of the trusted tracer (harness/c06_trace.py) cross-checked against the ast column; the c06.run opcode is a read-back / seed-stability check of that tracer (both sides share bind/eq_stripped), not independent evidence; the independent evidence is the differential run against NumPy",
    ]
    rule = ("every dispatcher function (numpy, numpy.linalg, numpy.fft with _implementation) and every ndarray method/attribute/dunder in npcatalog × "
            "call templates (positional/keyword/out=) × shapes {0-d,1-d,2-d,square,empty} × {float64,int64,complex128} × out buffer {unyt,bare} × "
            "unit assignments × seeded data; distinct = (template, shape, dtype, out mode, unit set) on which both NumPy and unyt returned (so values were compared bit for bit)")
    return chk.finish(rule)


# delegations NumPy documents as equivalent to the method (mirror of Ref.methodEquivC06; compared on every run)
METHOD_EQUIV = {"ndarray.copy|calls:numpy.copy", "ndarray.take|calls:numpy.take"}


def _render_row(r):
    if r["target"] is None:
        return "nokernel"
    parts = []
    for p, v in r["params"]:
        if v in ("same",):
            parts.append(f"{p}=~{p}")
        elif v == "sameRaw":
            parts.append(f"{p}={p}")
        elif v in ("changed", "copied"):
            parts.append(f"{p}=?{p}")
    parts += [f"{p}=?{p}" for p, v in r["params"] if v == "injected"]
    return r["target"] + "(" + ",".join(parts) + ")"


def methods_section(chk, model, known, seed):
    """the ndarray-method overrides: regenerated rows read back from the model, compared with a fresh ast pass over
    the live classes and with the kernels a call really reaches; their defects are a direct oracle"""
    import npcatalog as C
    import c06_alias as A
    import c06_methods as M
    import unyt

    uni = M.override_universe()
    names = sorted({"ndarray." + n for _c, n in uni})
    live = {}
    for cn, n in uni:
        live.setdefault("ndarray." + n, []).extend(M.method_static(getattr(unyt, cn), n))
    if model is not None:
        rep = model.ask(["c06.method.names", "c06.method.exclusions"] + [f"c06.method\t{m}" for m in names])
        got_names = rep[0][1].split(";") if len(rep[0]) > 1 and rep[0][1] else []
        if got_names != names:
            chk.disagree("c06.method.names", f"model {got_names} live classes {names}")
        excl = set(rep[1][1].split(";")) if len(rep[1]) > 1 and rep[1][1] else set()
        equiv = set(rep[1][2].split(";")) if len(rep[1]) > 2 and rep[1][2] else set()
        known_m = {k["key"] for k in known if k.get("kind") == "method-forwarding"}
        if excl != known_m:
            chk.disagree("exclusions", f"Ref.exclC06Methods {sorted(excl)} and the method-forwarding findings {sorted(known_m)} differ")
        if equiv != METHOD_EQUIV:
            chk.disagree("exclusions", f"Ref.methodEquivC06 {sorted(equiv)} differs from the harness list {sorted(METHOD_EQUIV)}")
        for m, rp in zip(names, rep[2:]):
            chk.case(("method-row", m))
            want = ";".join(f"{r['variant']}|{r['receiver']}|{_render_row(r)}|" +
                            ",".join(d for d in M.record_defects(r) if f"{m}|{d}" not in METHOD_EQUIV) for r in live[m])
            if rp[0] != "ok" or (rp[1] if len(rp) > 1 else "") != want:
                chk.disagree("c06.method", f"{m}: model (Np.run on the regenerated rows) {rp[1:]} fresh ast pass {want!r}")
    # direct oracle: defects of the live overrides
    for m, rs in live.items():
        for r in rs:
            chk.count("method-rows")
            for d in M.record_defects(r):
                if f"{m}|{d}" in METHOD_EQUIV:
                    continue
                chk.fail(f"{m}|{d}", f"override {r['variant'].split('#')[0]}.{m.split('.', 1)[1]} delegates to {r['target']} ({r['receiver']}) with parameters {r['params']}",
                         {"python": "import sys\n" f"sys.path.insert(0, {HARNESS!r})\n"
                                    "import unyt, c06_methods as M\n"
                                    f"rs = M.method_static(unyt.{r['variant'].split('#')[0]}, {m.split('.', 1)[1]!r})\nprint(rs)\n"
                                    f"assert not any({d!r} in M.record_defects(r) for r in rs)\n", "defect": d})
    for cn, n in uni:
        for e in A.static_exits(getattr(unyt, cn).__dict__[n]):
            if e["kind"] == "identity":
                chk.fail(f"ndarray.{n}|identity-test", f"{cn}.{n} decides on operand identity / memory overlap: `{e['src']}`",
                         {"python": "import sys\n" f"sys.path.insert(0, {HARNESS!r})\n"
                                    "import unyt, c06_alias as A\n"
                                    f"es = A.static_exits(unyt.{cn}.__dict__[{n!r}])\nprint(es)\n"
                                    "assert not [e for e in es if e['kind'] == 'identity'], es\n"})
    # dynamic tie of the `calls` column: the kernel a call of the override really reaches
    for t in C.templates("method"):
        if t.func not in live or A.kind_of(t):
            continue
        n = t.func.split(".", 1)[1]
        if n.startswith("__"):
            chk.count("method-kernel:dunder-not-observable")   # slot wrappers raise no c_call event
            continue
        for sc in t.shapes[:2]:
            obs = M.observe_kernels(t, t.dtypes[0], sc, 4000 + seed)
            if obs is None:
                continue
            chk.case(("method-kernel", t.tid, sc))
            chk.count("method-kernel:observed")
            targets = {r["target"] for r in live[t.func] if r["target"]}
            if not (targets & obs):
                chk.disagree("c06.method", f"{t.tid} [{sc}]: the rows say the override delegates to {sorted(targets)}; "
                                           f"observed kernels named {n}: {sorted(x for x in obs if x.endswith('.' + n))}")


def _expr(fid):
    return fid.replace("numpy", "np", 1)
