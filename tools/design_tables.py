#!/usr/bin/env python3
"""maintainer helper: per-property as-built summary table (markdown) from manifest.d, evidence, known_findings.d"""
import json, os, glob, re
V = os.path.dirname(os.path.dirname(os.path.abspath(__file__)))
known = []
for f in [os.path.join(V, "known_findings.json")] + sorted(glob.glob(os.path.join(V, "known_findings.d", "*.json"))):
    known += json.load(open(f))["findings"]
rows = []
for i in range(1, 21):
    pid = f"C{i:02d}"
    ev = os.path.join(V, "evidence", pid + ".json")
    if not os.path.exists(ev):
        rows.append(f"| {pid} | (not built) | | | | | |")
        continue
    e = json.load(open(ev))
    c = e["coverage"]
    k = [x for x in known if x["property"] == pid]
    nk = sum(1 for x in k if x.get("status") == "known")
    nf = sum(1 for x in k if x.get("status") == "fixed")
    lean = sorted(set(os.path.basename(p) for p in glob.glob(os.path.join(V, "lean", "UnytProofs", pid + "*.lean")) + glob.glob(os.path.join(V, "lean", "UnytProofs", pid + "*", "*.lean"))))
    rows.append(f"| {pid} | {c.get('discharged','-')}/{c.get('obligations','-')} | {c.get('evaluations')} | {c.get('distinct_nontrivial')} | {nk} | {nf} | {e.get('wall_s')} |")
print("| id | theorems discharged / stated (audited per run) | correspondence+oracle evaluations (quick) | distinct non-trivial | known findings kept | findings repaired by fix: commits | quick wall s |")
print("|---|---|---|---|---|---|---|")
print("\n".join(rows))
