#!/usr/bin/env python3
"""maintainer helper: regenerate design.d/AS_BUILT.md and embed it in DESIGN.md §11 between the markers"""
import os, subprocess
V = os.path.dirname(os.path.dirname(os.path.abspath(__file__)))
subprocess.run([os.path.join(V, "tools", "seeded_matrix.py")], stdout=subprocess.DEVNULL)
subprocess.run([os.path.join(V, "tools", "design_asbuilt.py")], stdout=subprocess.DEVNULL)
d = open(os.path.join(V, "DESIGN.md"), encoding="utf-8").read()
a = open(os.path.join(V, "design.d", "AS_BUILT.md"), encoding="utf-8").read()
b, e = "<!-- AS_BUILT:BEGIN -->", "<!-- AS_BUILT:END -->"
i, j = d.index(b) + len(b), d.index(e)
open(os.path.join(V, "DESIGN.md"), "w", encoding="utf-8").write(d[:i] + "\n" + a + d[j:])
d = open(os.path.join(V, "DESIGN.md"), encoding="utf-8").read()
s4 = open(os.path.join(V, "design.d", "SESSION4.md"), encoding="utf-8").read()
b, e = "<!-- SESSION4:BEGIN -->", "<!-- SESSION4:END -->"
if b in d:
    i, j = d.index(b) + len(b), d.index(e)
    open(os.path.join(V, "DESIGN.md"), "w", encoding="utf-8").write(d[:i] + "\n" + s4 + d[j:])
print("DESIGN.md §11 refreshed")
