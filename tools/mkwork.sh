#!/bin/bash
# maintainer helper: create a builder worktree of /verif for property $1 (e.g. c08), pre-built
set -e
id=$1
cd /verif
if [ ! -d /work/$id ]; then git worktree add -b $id /work/$id >/dev/null 2>&1 || git worktree add /work/$id $id; fi
[ -d /work/$id/lean/.lake ] || cp -a lean/.lake /work/$id/lean/.lake
mkdir -p /work/$id/lean/UnytModel/Generated /work/$id/build
cp -a lean/UnytModel/Generated/. /work/$id/lean/UnytModel/Generated/
cp -a build/. /work/$id/build/ 2>/dev/null || true
(cd /work/$id/lean && lake build 2>&1 | tail -1)
