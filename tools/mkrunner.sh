#!/bin/bash
# maintainer helper: (re)create a detached runner worktree of /verif at /work/$1 (pre-built), for running
# seeded changes in parallel without disturbing /verif's Generated tables.
set -e
k=$1
cd /verif
if [ -d /work/$k ]; then git -C /work/$k checkout -q --detach main; else git worktree add --detach /work/$k HEAD >/dev/null 2>&1; fi
mkdir -p /work/$k/lean/UnytModel/Generated /work/$k/build
rsync -a --delete lean/.lake/ /work/$k/lean/.lake/
rsync -a lean/UnytModel/Generated/ /work/$k/lean/UnytModel/Generated/
rsync -a build/ /work/$k/build/
echo "runner /work/$k at $(git -C /work/$k log -1 --format=%h)"
