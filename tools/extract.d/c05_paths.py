"""C05 translator plugin: the control flow of `Unit.__mul__`, `__truediv__`, `__pow__` (+ `__rmul__`,
`__rtruediv__`) of the LIVE `unyt/unit_object.py`, read by `ast`, as path lists for `UnytModel.UnitPaths`.

Every way through a method body (if/elif/else, assignments to local names, raise, return) becomes one
`Path`: the branch conditions taken (known condition texts are mapped to `Atom`s, unknown ones stay as
`Atom.opaque "<source>"`) and the outcome (`raise Exc`, `return Unit(<expr>, base_value=…, base_offset=…,
dimensions=…, registry=…)` with each field classified, or any other return as source text).  A new early
return, a reordered guard or a changed field therefore changes the generated program, and the refinement
theorems of `UnytProofs/C05Paths.lean` (generated program == `UnitV.mul/div/powSrc` for ALL unit values) are
re-checked against it on every run.  Regenerates `Generated/C05Paths.lean`."""
import ast
import os

ERRS = {"UnitOperationError", "UnitConversionError", "UnitParseError", "InvalidUnitOperation", "UnitInconsistencyError",
        "IterableUnitCoercionError", "UnitsNotReducible", "InvalidUnitEquivalence", "SymbolNotFoundError",
        "IllDefinedUnitSystem", "MissingMKSCurrent", "MKSCGSConversionError", "TypeError", "ValueError", "RuntimeError",
        "KeyError"}


class Tr:
    def __init__(self, X, fn):
        self.X = X
        self.fn = fn
        self.me = fn.args.args[0].arg
        self.other = fn.args.args[1].arg if len(fn.args.args) > 1 else None
        self.is_pow = fn.name == "__pow__"
        self.is_eq = fn.name == "__eq__"
        self.paths = []
        self.unknown = []
        self.rationalises = False

    # ------------------------------------------------------------------ source normalisation
    def src(self, node):
        class Ren(ast.NodeTransformer):
            def visit_Name(s, n):  # noqa: N802, N805
                if n.id == self.me:
                    return ast.copy_location(ast.Name("self", n.ctx), n)
                if n.id == self.other:
                    return ast.copy_location(ast.Name("p" if self.is_pow else "u", n.ctx), n)
                return n

        import copy

        return ast.unparse(Ren().visit(copy.deepcopy(node)))

    # ------------------------------------------------------------------ conditions
    ATOMS = {
        "self.dimensions is logarithmic": "selfLog", "u.dimensions is logarithmic": "otherLog",
        "self.is_dimensionless": "selfDimless", "u.is_dimensionless": "otherDimless",
        "self.base_offset": "selfOff", "u.base_offset": "otherOff",
        "self.base_offset != 0.0": "selfOff", "u.base_offset != 0.0": "otherOff",
        "self.base_offset != 0": "selfOff", "u.base_offset != 0": "otherOff",
        "self.dimensions in (temperature, angle)": "selfTA", "u.dimensions in (temperature, angle)": "otherTA",
        "p == 0": "pEq0", "p == 1": "pEq1",
        "isinstance(u, Unit)": "otherIsUnit", "getattr(u, 'is_Unit', False)": "otherIsUnit",
        "math.isclose(self.base_value, u.base_value)": "scaleClose", "math.isclose(self.base_offset, u.base_offset)": "offsetClose",
        "self.dimensions is u.dimensions": "dimIs", "self.dimensions == u.dimensions": "dimEq",
    }
    NEG = {"p != 0": "pEq0", "p != 1": "pEq1", "not isinstance(u, Unit)": None, "not getattr(u, 'is_Unit', False)": None}

    def cond(self, node):
        L = self.X.lstr
        if isinstance(node, ast.BoolOp):
            op = ".and" if isinstance(node.op, ast.And) else ".or"
            parts = [self.cond(v) for v in node.values]
            out = parts[-1]
            for p in reversed(parts[:-1]):
                out = f"({op} {p} {out})"
            return out
        if isinstance(node, ast.Constant) and isinstance(node.value, bool):
            return f"(.const {'true' if node.value else 'false'})"
        s = self.src(node)
        if not self.is_pow and not self.is_eq and s in ("not isinstance(u, Unit)", "not getattr(u, 'is_Unit', False)"):
            return "(.atom .otherNotUnit)"
        if isinstance(node, ast.UnaryOp) and isinstance(node.op, ast.Not):
            return f"(.not {self.cond(node.operand)})"
        if s in self.ATOMS:
            return f"(.atom .{self.ATOMS[s]})"
        if s in self.NEG and self.NEG[s]:
            return f"(.not (.atom .{self.NEG[s]}))"
        return f"(.atom (.opaque {L(s)}))"

    # ------------------------------------------------------------------ returned value
    def field(self, node, attr):
        if node is None:
            return ".default"
        s = self.src(node)
        table = {f"self.{attr} * u.{attr}": ".mul", f"self.{attr} / u.{attr}": ".div", f"self.{attr} ** p": ".powP"}
        return table.get(s, f"(.opaque {self.X.lstr(s)})")

    def off(self, node, env, depth=0):
        if node is None:
            return ".zero"
        if isinstance(node, ast.Name) and node.id in env and depth < 8:
            return self.off(env[node.id], env, depth + 1)
        if isinstance(node, ast.Constant) and isinstance(node.value, (int, float)) and node.value == 0:
            return ".zero"
        if isinstance(node, ast.IfExp):
            return f"(.ite {self.cond(node.test)} {self.off(node.body, env, depth + 1)} {self.off(node.orelse, env, depth + 1)})"
        s = self.src(node)
        return {"self.base_offset": ".ofSelf", "u.base_offset": ".ofOther"}.get(s, f"(.opaque {self.X.lstr(s)})")

    def ret(self, node, env):
        L = self.X.lstr
        if node is None:
            return f"(.other {L('None')})"
        if self.is_eq:
            return f"(.bool {self.cond(node)})"
        if isinstance(node, ast.Call) and isinstance(node.func, ast.Name) and node.func.id == "Unit" and len(node.args) <= 1 \
                and all(k.arg in ("base_value", "base_offset", "dimensions", "registry") for k in node.keywords):
            kw = {k.arg: k.value for k in node.keywords}
            e = self.field(node.args[0] if node.args else None, "expr")
            sc = self.field(kw.get("base_value"), "base_value")
            d = self.field(kw.get("dimensions"), "dimensions")
            o = self.off(kw.get("base_offset"), env)
            r = kw.get("registry")
            rs = ".default" if r is None else {"self.registry": ".ofSelf", "u.registry": ".ofOther"}.get(self.src(r), f"(.opaque {L(self.src(r))})")
            return f"(.unit {e} {sc} {d} {o} {rs})"
        return f"(.other {L(self.src(node))})"

    # ------------------------------------------------------------------ paths
    def emit(self, guard, out):
        g = ", ".join(f"({c}, {'true' if b else 'false'})" for c, b in guard)
        self.paths.append(f"⟨[{g}], {out}⟩")

    def walk(self, stmts, conts, array_scope=False):
        """conts: list of (env, guard) reaching the statement list; returns those that fall through"""
        for st in stmts:
            if not conts:
                break
            new = []
            for env, guard in conts:
                if isinstance(st, ast.Expr) and isinstance(st.value, ast.Constant):
                    new.append((env, guard))
                elif isinstance(st, ast.If):
                    c = self.cond(st.test)
                    scope = array_scope or c == "(.atom .otherNotUnit)"
                    new += self.walk(st.body, [(dict(env), guard + [(c, True)])], scope)
                    new += self.walk(st.orelse, [(dict(env), guard + [(c, False)])], array_scope)
                elif isinstance(st, ast.Assign) and len(st.targets) == 1 and isinstance(st.targets[0], ast.Name) and not array_scope:
                    e2 = dict(env)
                    e2[st.targets[0].id] = st.value
                    new.append((e2, guard))
                elif isinstance(st, ast.Raise):
                    exc = st.exc.func.id if isinstance(st.exc, ast.Call) and isinstance(st.exc.func, ast.Name) else (
                        st.exc.id if isinstance(st.exc, ast.Name) else "Other")
                    self.emit(guard, f"(.raise .{exc if exc in ERRS else 'Other'})")
                elif isinstance(st, ast.Return):
                    self.emit(guard, f"(.other {self.X.lstr(self.src(st.value))})" if array_scope and st.value is not None else self.ret(st.value, env))
                elif (self.is_pow and isinstance(st, ast.Try) and len(st.body) == 1
                      and self.src(st.body[0]) == "p = Rational(str(p)).limit_denominator()"):
                    # the exponent is rationalised first (modelled by `ratOfFloat`, see C05.pow_ratOfFloat); the model's
                    # exponent is the rational
                    self.rationalises = True
                    new.append((env, guard))
                elif array_scope:
                    new.append((env, guard))
                else:
                    self.unknown.append(f"{self.fn.name}: {self.src(st)}")
                    new.append((env, guard))
            conts = new
        return conts

    def run(self):
        rest = self.walk(self.fn.body, [({}, [])])
        for _env, guard in rest:
            self.emit(guard, f"(.other {self.X.lstr('None')})")
        return self


def generate(X):
    path = os.path.join(X.REPO, "unyt", "unit_object.py")
    tree = ast.parse(open(path, encoding="utf-8").read())
    cls = next(n for n in tree.body if isinstance(n, ast.ClassDef) and n.name == "Unit")
    fns = {n.name: n for n in cls.body if isinstance(n, ast.FunctionDef)}
    out = {}
    defs = []
    unknown = []
    rationalises = False
    for name, lname in (("__mul__", "mulPaths"), ("__truediv__", "truedivPaths"), ("__pow__", "powPaths"), ("__eq__", "eqPaths")):
        t = Tr(X, fns[name]).run()
        unknown += t.unknown
        rationalises = rationalises or t.rationalises
        out[lname] = t.paths
        defs.append(f"/-- the paths through `Unit.{name}` in source order -/\ndef {lname} : List Path := [\n  "
                    + ",\n  ".join(t.paths) + "]\n")
    one = {}
    for name, lname in (("__rmul__", "rmulSrc"), ("__rtruediv__", "rtruedivSrc")):
        fn = fns[name]
        body = [s for s in fn.body if not (isinstance(s, ast.Expr) and isinstance(s.value, ast.Constant))]
        t = Tr(X, fn)
        one[lname] = t.src(body[0].value) if len(body) == 1 and isinstance(body[0], ast.Return) else "<not a single return> " + "; ".join(t.src(s) for s in body)
        defs.append(f"/-- the single returned expression of `Unit.{name}` -/\ndef {lname} : String := {X.lstr(one[lname])}\n")
    text = (
        X.header("UnytModel.UnitPaths")
        + "namespace Unyt.Generated.C05Paths\nopen Unyt Unyt.UnitPaths\n\n"
        + "\n".join(defs)
        + "\n/-- statements of the three method bodies that the translator has no reading for -/\n"
        + "def unknownStmts : List String := [" + ", ".join(X.lstr(u) for u in unknown) + "]\n\n"
        + "/-- `__pow__` starts with `p = Rational(str(p)).limit_denominator()` -/\n"
        + f"def powRationalises : Bool := {'true' if rationalises else 'false'}\n\n"
        + "end Unyt.Generated.C05Paths\n"
    )
    X.write_if_changed(os.path.join(X.GEN, "C05Paths.lean"), text)
    return {"paths": {k: len(v) for k, v in out.items()}, "unknown": unknown, "single": one, "rationalises": rationalises}
