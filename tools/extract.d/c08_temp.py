"""C08 translator plugin: the temperature rows, the SI prefixes, the symbol/prefixable list that
`_split_prefix` consults, the ufunc -> unit-rule entries the temperature logic branches on, and the
string / name literals of the temperature guards (read from the source with `ast`).

Writes lean/UnytModel/Generated/TempRows.lean.  Names travel as lists of Unicode code points
(`List Nat`): the model's string tests (`in`, `startswith`, `==`) then reduce to `Nat` comparisons,
which the kernel decides quickly.
"""
import ast
import inspect
import os
import textwrap


def cps(s):
    return "[" + ", ".join(str(ord(c)) for c in s) + "]"


def _fn_ast(fn):
    fn = inspect.unwrap(fn)
    src = textwrap.dedent(inspect.getsource(fn))
    return ast.parse(src).body[0]


def _const_str(n):
    return n.value if isinstance(n, ast.Constant) and isinstance(n.value, str) else None


def code_constants(X):
    """literals of the temperature logic, read from the current source"""
    import unyt.array as ua
    import unyt._array_functions as uaf
    from unyt.unit_object import Unit

    out = {}
    # --- __array_ufunc__: `str(u0.expr) in ["K", "R"]` and `.startswith("delta_")`
    t = _fn_ast(ua.unyt_array.__array_ufunc__)
    kr = []
    sw = []
    for n in ast.walk(t):
        if isinstance(n, ast.Compare) and len(n.ops) == 1 and isinstance(n.ops[0], ast.In):
            c = n.comparators[0]
            left = n.left
            if (isinstance(c, (ast.List, ast.Tuple)) and all(_const_str(e) is not None for e in c.elts)
                    and isinstance(left, ast.Call) and getattr(left.func, "id", None) == "str"):
                kr.append([_const_str(e) for e in c.elts])
        if isinstance(n, ast.Call) and isinstance(n.func, ast.Attribute) and n.func.attr == "startswith":
            if n.args and _const_str(n.args[0]) is not None:
                sw.append(_const_str(n.args[0]))
    if len(kr) != 1:
        raise ValueError(f"__array_ufunc__: expected one `str(..) in [..]` guard, found {kr}")
    if len(set(sw)) != 1:
        raise ValueError(f"__array_ufunc__: expected one startswith literal, found {sw}")
    out["kr_names"] = kr[0]
    out["ufunc_startswith"] = sw[0]
    # --- _difference_units: startswith literals, `s1 == "<name>"` -> returned unit
    t = _fn_ast(ua._difference_units)
    sw = []
    ret = []
    for n in ast.walk(t):
        if isinstance(n, ast.Call) and isinstance(n.func, ast.Attribute) and n.func.attr == "startswith":
            if n.args and _const_str(n.args[0]) is not None:
                sw.append(_const_str(n.args[0]))
        if isinstance(n, ast.If) and isinstance(n.test, ast.Compare) and len(n.test.ops) == 1 \
                and isinstance(n.test.ops[0], ast.Eq) and _const_str(n.test.comparators[0]) is not None:
            body = n.body[0]
            if isinstance(body, ast.Return) and isinstance(body.value, ast.Tuple) and isinstance(body.value.elts[1], ast.Name):
                obj = getattr(ua, body.value.elts[1].id)
                ret.append([_const_str(n.test.comparators[0]), repr(obj.units if hasattr(obj, "units") else obj)])
    if len(set(sw)) != 1 or not ret:
        raise ValueError(f"_difference_units: startswith {sw}, returns {ret}")
    out["diff_startswith"] = sw[0]
    out["diff_point_to_delta"] = ret
    # --- diff_helper: the unit a temperature difference is labelled with:
    #     `ret_units = <delta unit>`                       (every offset-free unit gets that label), or
    #     `ret_units = <delta unit> if u == <delta unit> else u`   (only units equal to it; others keep their own)
    t = _fn_ast(uaf.diff_helper)
    names = []
    keeps = []
    for n in ast.walk(t):
        if isinstance(n, ast.If):
            for b in n.body:
                if isinstance(b, ast.Assign) and getattr(b.targets[0], "id", None) == "ret_units":
                    v = b.value
                    keep = False
                    if (isinstance(v, ast.IfExp) and isinstance(v.body, ast.Name) and isinstance(v.orelse, ast.Name)
                            and v.orelse.id == "u" and isinstance(v.test, ast.Compare) and len(v.test.ops) == 1
                            and isinstance(v.test.ops[0], ast.Eq) and getattr(v.test.left, "id", None) == "u"
                            and getattr(v.test.comparators[0], "id", None) == v.body.id):
                        v = v.body
                        keep = True
                    if isinstance(v, ast.Name):
                        obj = getattr(uaf, v.id, None)
                        if obj is not None and not isinstance(obj, type):
                            names.append(repr(getattr(obj, "units", obj)))
                            keeps.append(keep)
    if len(names) != 1:
        raise ValueError(f"diff_helper: expected one temperature return unit, found {names}")
    out["diff_helper_unit"] = names[0]
    out["diff_helper_keeps_unit"] = keeps[0]
    # --- the source text (ast.unparse, i.e. normalised layout) of the guards the three repairs consist of;
    #     the Lean obligation compares them with the guards the model implements
    from unyt.unit_object import Unit as _Unit

    def raises_invalid(stmt):
        return (isinstance(stmt, ast.Raise) and isinstance(stmt.exc, ast.Call)
                and getattr(stmt.exc.func, "id", None) == "InvalidUnitOperation")

    # Unit.__pow__: the tests of every `if <test>: raise InvalidUnitOperation(...)`, in source order
    t = _fn_ast(_Unit.__pow__)
    out["pow_raise_guards"] = [ast.unparse(n.test) for n in t.body if isinstance(n, ast.If) and n.body and raises_invalid(n.body[0])]
    # diff_helper: inside `if u.dimensions is temperature:` — the refusal test and the label expression
    t = _fn_ast(uaf.diff_helper)
    dh_guard, dh_label, dh_outer = [], [], []
    for n in t.body:
        if isinstance(n, ast.If):
            dh_outer.append(ast.unparse(n.test))
            for b in n.body:
                if isinstance(b, ast.If) and b.body and raises_invalid(b.body[0]):
                    dh_guard.append(ast.unparse(b.test))
                if isinstance(b, ast.Assign) and getattr(b.targets[0], "id", None) == "ret_units":
                    dh_label.append(ast.unparse(b.value))
    out["diff_helper_outer"] = dh_outer
    out["diff_helper_raise_guards"] = dh_guard
    out["diff_helper_label"] = dh_label
    # __array_ufunc__: every `if <test>: inp0 = <expr>` — test and expression of the first-operand rescaling
    t = _fn_ast(ua.unyt_array.__array_ufunc__)
    resc = []
    for n in ast.walk(t):
        if isinstance(n, ast.If):
            for b in n.body:
                if isinstance(b, ast.Assign) and getattr(b.targets[0], "id", None) == "inp0" and isinstance(b.value, ast.BinOp):
                    resc.append([ast.unparse(n.test), ast.unparse(b.value),
                                 [ast.unparse(x) for x in n.orelse]])
    out["first_operand_rescaling"] = resc
    out["diff_helper_keeps_unit"] = keeps[0]
    return out


RULE_UFUNCS = ["add", "subtract", "multiply", "divide", "floor_divide", "power", "sqrt", "cbrt", "square", "reciprocal",
               "less", "less_equal", "greater", "greater_equal", "equal", "not_equal", "negative", "absolute",
               "maximum", "minimum"]


def generate(X):
    import numpy as np
    import unyt.dimensions as udims
    from unyt import _unit_lookup_table as ult
    from unyt.array import unyt_array

    lut = ult.default_unit_symbol_lut
    rows = []
    jrows = {}
    for k, v in lut.items():
        if v[1] == udims.temperature:
            rows.append(f"  ({cps(k)}, {X.lstr(k)}, {X.bits(v[0])}, {X.bits(v[2])}, {'true' if v[4] else 'false'})")
            jrows[k] = [X.bits(v[0]), X.bits(v[2]), bool(v[4])]
    pre = []
    jpre = {}
    for k, v in ult.unit_prefixes.items():
        pre.append(f"  ({cps(k)}, {X.lstr(k)}, {X.bits(v[0])})")
        jpre[k] = X.bits(v[0])
    names = [f"  ({cps(k)}, {'true' if v[4] else 'false'})" for k, v in lut.items()]
    reg = unyt_array._ufunc_registry
    rules = []
    jrules = {}
    for name in RULE_UFUNCS:
        uf = getattr(np, name)
        r = reg[uf].__name__ if uf in reg else "(unregistered)"
        rules.append(f"  ({X.lstr(name)}, {X.lstr(r)})")
        jrules[name] = r
    cc = code_constants(X)
    text = (
        X.header()
        + "namespace Unyt.Generated\n\n"
        + "/-- rows of `default_unit_symbol_lut` whose dimension is temperature:\n"
        + "    (name code points, name, base_value bits, base_offset bits, prefixable) -/\n"
        + "def tempRows : List (List Nat × String × Nat × Nat × Bool) := [\n" + ",\n".join(rows) + "\n]\n\n"
        + "/-- `unit_prefixes`: (symbol code points, symbol, value bits) -/\n"
        + "def tempPrefixes : List (List Nat × String × Nat) := [\n" + ",\n".join(pre) + "\n]\n\n"
        + "/-- every symbol of `default_unit_symbol_lut` with its prefixable flag (what `_split_prefix` consults) -/\n"
        + "def lutNames : List (List Nat × Bool) := [\n" + ",\n".join(names) + "\n]\n\n"
        + "/-- `unyt_array._ufunc_registry[np.<ufunc>].__name__` for the ufuncs the temperature model covers -/\n"
        + "def tempRules : List (String × String) := [\n" + ",\n".join(rules) + "\n]\n\n"
        + "/-- array.py `__array_ufunc__`: the list in `str(u0.expr) in [...]` (K/R + offset refusal) -/\n"
        + "def krNames : List (List Nat) := [" + ", ".join(cps(s) for s in cc["kr_names"]) + "]\n\n"
        + "/-- array.py `__array_ufunc__`: the literal in `repr(u0).startswith(...)` -/\n"
        + f"def ufuncStartsWith : List Nat := {cps(cc['ufunc_startswith'])}\n\n"
        + "/-- array.py `_difference_units`: the literal in `s.startswith(...)` -/\n"
        + f"def diffStartsWith : List Nat := {cps(cc['diff_startswith'])}\n\n"
        + "/-- array.py `_difference_units`: `s1 == name` → returned unit (repr) -/\n"
        + "def diffPointToDelta : List (List Nat × List Nat) := ["
        + ", ".join(f"({cps(a)}, {cps(b)})" for a, b in cc["diff_point_to_delta"]) + "]\n\n"
        + "/-- _array_functions.py `diff_helper`: the unit a temperature `diff/ediff1d/ptp` is labelled with -/\n"
        + f"def diffHelperUnit : List Nat := {cps(cc['diff_helper_unit'])}\n\n"
        + "/-- unit_object.py `Unit.__pow__`: source text of the tests of every `if …: raise InvalidUnitOperation` -/\n"
        + "def powRaiseGuards : List (List Nat) := [" + ", ".join(cps(x) for x in cc["pow_raise_guards"]) + "]\n\n"
        + "/-- _array_functions.py `diff_helper`: outer test, refusal tests and label expressions of the temperature branch -/\n"
        + "def diffHelperOuter : List (List Nat) := [" + ", ".join(cps(x) for x in cc["diff_helper_outer"]) + "]\n"
        + "def diffHelperRaiseGuards : List (List Nat) := [" + ", ".join(cps(x) for x in cc["diff_helper_raise_guards"]) + "]\n"
        + "def diffHelperLabel : List (List Nat) := [" + ", ".join(cps(x) for x in cc["diff_helper_label"]) + "]\n\n"
        + "/-- array.py `__array_ufunc__`: every `if <test>: inp0 = <expr> else: <stmts>` — (test, expr, else-statements) -/\n"
        + "def firstOperandRescaling : List (List Nat × List Nat × List (List Nat)) := ["
        + ", ".join(f"({cps(a)}, {cps(b)}, [" + ", ".join(cps(x) for x in c) + "])" for a, b, c in cc["first_operand_rescaling"]) + "]\n\n"
        + "end Unyt.Generated\n"
    )
    X.write_if_changed(os.path.join(X.GEN, "TempRows.lean"), text)
    return {"rows": jrows, "prefixes": jpre, "rules": jrules, "code": cc}
