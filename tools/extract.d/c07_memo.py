"""Translator plugin for C07: regenerates lean/UnytModel/Generated/C07Memo.lean — what the unit label of every
handler of the live unyt/_array_functions.py REMEMBERS between calls.

History probes (harness/c07_hist.probe_memo), per handled function x call form (first shape class / dtype that
returns unit-carrying leaves, data seed 0): the call on symbols nobody has seen gives the reference label; then
three two-call histories in which the first call differs from the second only in (a) the scale of the symbols
(`UnitRegistry.modify` between the calls), (b) the registry object (same names, other scales), (c) the
expression (other symbols of the same registry).  A label that differs from the reference means the handler
keeps something between calls whose key lacks that component: row `⟨func, variant, ⟨memo, byReg, byExpr,
byScale⟩⟩` of `UnytModel/LabelMemo.lean` (`memo = false` when nothing leaks).  The order of the probes is fixed:
the generated file is a function of the source only.
"""
import os
import sys
import warnings


def generate(X):
    warnings.simplefilter("ignore")
    harness = os.path.join(os.path.dirname(os.path.dirname(os.path.dirname(os.path.abspath(__file__)))), "harness")
    if harness not in sys.path:
        sys.path.insert(0, harness)
    import numpy as np

    np.seterr(all="ignore")
    import npcatalog as C
    import c07_hist as H
    import unyt._array_functions as AF

    handled = {C.name_of(f) for f in AF._HANDLED_FUNCTIONS}
    rows = []
    for t in C.templates("function"):
        f = C.canonical_func(t)
        if f not in handled:
            continue
        dts = [d for d in t.dtypes if d != "i"] or list(t.dtypes)
        got = None
        for sc in t.shapes:
            for dk in dts:
                try:
                    got = H.probe_memo(t, dk, sc, 0)
                except Exception:  # noqa: BLE001
                    got = None
                if got is not None:
                    break
            if got is not None:
                break
        if got is None:
            continue
        memo = got["scale"] or got["reg"] or got["expr"]
        rows.append(dict(func=f, variant=t.variant, tid=t.tid, dk=dk, sc=sc, memo=memo, byReg=not got["reg"],
                         byExpr=not got["expr"], byScale=not got["scale"]))
    L = X.lstr
    b = lambda v: "true" if v else "false"  # noqa: E731
    lines = [X.header("UnytModel.LabelMemo"), "namespace Unyt.Generated", "open Unyt.LabelMemo", "",
             "/-- history probes of the live handlers: which components of the operand units the label depends on",
             "    through the history of the process (`memo = false`: nothing is remembered) -/",
             "def memoRows : List MemoRow := ["]
    lines.append(",\n".join(f"  ⟨{L(r['func'])}, {L(r['variant'])}, ⟨{b(r['memo'])}, {b(r['byReg'])}, {b(r['byExpr'])}, {b(r['byScale'])}⟩⟩" for r in rows))
    lines += ["]", "", "end Unyt.Generated", ""]
    X.write_if_changed(os.path.join(X.GEN, "C07Memo.lean"), "\n".join(lines))
    return {"rows": rows}
