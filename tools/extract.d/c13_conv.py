"""C13 translator plugin: what the conversion entry points of `unyt_array` hand to the constructor that labels
the converted data, measured on the live code.

For every entry point that takes a target unit (`to`, `in_units`, `convert_to_units`, `unyt_array(x, u)`,
`unyt_quantity(x, u)`, `to_value`) data of registry A are converted
to a unit OBJECT of registry B through a recording subclass of `unyt_array`: `passes` = some constructor call made
on the way carried `registry=` (not None) together with `bypass_validation=True`; `rehomed` = afterwards the target
object's `registry` attribute is no longer B.  `fastAssigns` = the fast path of `unyt_array.__new__` given
`registry=A, bypass_validation=True` and a unit object of B leaves that object pointing at A.
Regenerates `Generated/C13Conv.lean` (`convPasses`, `convRehomed`, `convRelabels`, `convFastAssigns`)."""
import os

ENTRY_POINTS = ["to", "in_units", "convert_to_units", "ctor_array", "ctor_quantity", "to_value"]


def entry_point(name, x, target, cls=None):
    """run conversion entry point `name` on data `x` with target unit (object or string) -> the unit object the
    result carries (None when the result carries no unit)"""
    import numpy as np
    from unyt import unyt_array, unyt_quantity

    if name == "to":
        return x.to(target).units
    if name == "in_units":
        return x.in_units(target).units
    if name == "convert_to_units":
        x.convert_to_units(target)
        return x.units
    if name == "ctor_array":
        return (cls or unyt_array)(x, target).units
    if name == "ctor_quantity":
        return unyt_quantity(x[0], target).units
    if name == "to_value":
        x.to_value(target)
        return None
    if name == "ufunc_add":
        from unyt import Unit

        t = target if not isinstance(target, str) else Unit(target, registry=x.units.registry)
        return np.add(x, (cls or unyt_array)([4.0, 5.0], t)).units
    raise ValueError(name)


def generate(X):
    import numpy as np
    from unyt import Unit
    from unyt.array import unyt_array
    from unyt.dimensions import length
    from unyt.unit_registry import UnitRegistry

    calls = []

    class Probe(unyt_array):
        def __new__(cls, *a, **kw):
            calls.append(dict(kw, _nargs=len(a)))
            return super().__new__(cls, *a, **kw)

    rows, errors, relabel = [], [], {}
    for name in ENTRY_POINTS:
        A, B = UnitRegistry(), UnitRegistry()
        A.add("c13len", 3.0, length)
        ub = Unit("km", registry=B)
        x = Probe(np.array([1.0, 2.0]), Unit("c13len", registry=A))
        del calls[:]
        try:
            ru = entry_point(name, x, ub, cls=Probe)
        except Exception as e:  # noqa: BLE001
            errors.append(f"{name}: {e!r}")
            continue
        relabel[name] = ru is not None and ru is not ub and ru.registry is A
        passes = any(c.get("registry") is not None and c.get("bypass_validation") is True for c in calls)
        rows.append((name, passes, ub.registry is not B))
    A, B = UnitRegistry(), UnitRegistry()
    u = Unit("km", registry=B)
    try:
        unyt_array(np.array([1.0]), u, registry=A, bypass_validation=True)
        fast = u.registry is A
    except Exception as e:  # noqa: BLE001
        errors.append(f"fast path: {e!r}")
        fast = False
    b = lambda v: "true" if v else "false"  # noqa: E731
    text = (
        X.header()
        + "namespace Unyt.Generated\n\n"
        + "/-- per conversion entry point of the live `unyt_array`: a constructor call on the way carried `registry=`\n"
        + "    together with `bypass_validation=True` (tools/extract.d/c13_conv.py, recording subclass) -/\n"
        + "def convPasses : List (String × Bool) := ["
        + ", ".join(f"({X.lstr(n)}, {b(p)})" for n, p, _ in rows) + "]\n\n"
        + "/-- per entry point: afterwards the TARGET unit object of the other registry points at another registry -/\n"
        + "def convRehomed : List (String × Bool) := ["
        + ", ".join(f"({X.lstr(n)}, {b(r)})" for n, _, r in rows) + "]\n\n"
        + "/-- per entry point: the converted data carry a NEW unit object of the data's registry, not the target object -/\n"
        + "def convRelabels : List (String × Bool) := ["
        + ", ".join(f"({X.lstr(n)}, {b(relabel.get(n, False))})" for n, _, _ in rows) + "]\n\n"
        + "/-- `unyt_array(v, u, registry=A, bypass_validation=True)` assigns `u.registry = A` on the object given -/\n"
        + f"def convFastAssigns : Bool := {b(fast)}\n\n"
        + "/-- number of entry points the probe could run -/\n"
        + f"def convProbed : Nat := {len(rows)}\n\n"
        + "end Unyt.Generated\n"
    )
    X.write_if_changed(os.path.join(X.GEN, "C13Conv.lean"), text)
    return {"rows": rows, "fast": fast, "relabels": relabel, "errors": errors}
