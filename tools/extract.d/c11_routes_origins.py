"""C11 translator plugin (runs after c11_routes): the route probes repeated on registries the user did
NOT build — the registry of what a route hands back for a default-registry quantity (a deep copy, an
unpickled copy, a `from_json` copy of the default registry).

Regenerates `lean/UnytModel/Generated/PersistOrigins.lean`: `persistOrigins : OriginTable` — one
`RouteCfg` per (origin, route), measured by `c11_lib.probe_route(route, mkreg=origin_registry(origin))`
on the LIVE code — and `originRoutes`, the routes that produce such a private registry.

Origins whose registry objects are of the same KIND — same class, same instance attributes — are probed
once (the first route of the kind is the representative; `origin_rep` in the JSON maps every private
origin to it).  A flag the API cannot reach on that kind of registry (`remove` is refused by the class
of the default registry) is reported as not observable and takes the base row's value.

`UnytProofs/C11Chain.lean: origins_uniform` (kernel-decided) says every row equals the route's base
row: a route that treats registry objects of some class differently (pickling them by reference,
dropping their table, …) changes a row here and breaks it.
"""
import json
import os
import sys


def generate(X):
    sys.path.insert(0, os.path.join(os.path.dirname(X.HERE), "harness"))
    import c11_lib as L

    base = json.load(open(os.path.join(X.BUILD, "extract_c11_routes.json"), encoding="utf-8"))["flags"]
    private = L.private_origin_routes()
    kinds, rep = {}, {}
    for r1 in private:
        reg = L.origin_registry(r1)
        kind = (type(reg).__module__ + "." + type(reg).__qualname__, tuple(sorted(vars(reg))))
        kinds.setdefault(kind, r1)
        rep[r1] = kinds[kind]
    reps = [r for r in private if rep[r] == r]
    flags, notes, unobservable = {}, {}, {}
    for r1 in reps:
        flags[r1], notes[r1], unobservable[r1] = {}, {}, {}
        for r in L.ROUTES:
            f, n = L.probe_route(r, lambda unit_system=None, _r1=r1: L.origin_registry(_r1, unit_system))
            un = sorted(k for k, v in f.items() if v is None)
            for k in un:
                f[k] = base[r][k]
            flags[r1][r], notes[r1][r], unobservable[r1][r] = f, n, un

    b = lambda x: "true" if x else "false"  # noqa: E731

    def row(r1, r):
        f = flags[r1][r]
        return (
            f"  ((.via .{r1}, .{r}), {{\n      keepsValues := {b(f['keepsValues'])}, keepsDtype := {b(f['keepsDtype'])}, keepsClass := {b(f['keepsClass'])},\n"
            f"      unitSame := {b(f['unitSame'])}, unitByDisplayStr := {b(f['unitByDisplayStr'])}, unitDataCarried := {b(f['unitDataCarried'])},\n"
            f"      unitCanon := ⟨{b(f['unitCanonOnCanon'])}, {b(f['unitCanonOnNon'])}⟩,\n"
            f"      regSame := {b(f['regSame'])}, keepsAdded := {b(f['keepsAdded'])}, keepsModifiedDefault := {b(f['keepsModifiedDefault'])}, keepsFlagOnlyDefault := {b(f['keepsFlagOnlyDefault'])}, keepsRemoved := {b(f['keepsRemoved'])},\n"
            f"      userRowCanon := ⟨{b(f['userRowCanonOnCanon'])}, {b(f['userRowCanonOnNon'])}⟩, dfltRowCanon := ⟨{b(f['dfltRowCanonOnCanon'])}, {b(f['dfltRowCanonOnNon'])}⟩,\n"
            f"      keepsUnitSystem := {b(f['keepsUnitSystem'])} }})"
        )

    text = (
        X.header("UnytModel.PersistChain")
        + "namespace Unyt.Generated\nopen Unyt.Persist\n\n"
        + "/-- per (origin of the registry object, route): the probes of `persistRoutes` repeated on the registry\n"
        + "    a route hands back for a default-registry quantity (tools/extract.d/c11_routes_origins.py) -/\n"
        + "def persistOrigins : OriginTable := [\n"
        + ",\n".join(row(r1, r) for r1 in reps for r in L.ROUTES)
        + "\n]\n\n"
        + "/-- the origins probed: one per KIND (class + instance attributes) of private registry object -/\n"
        + "def originRoutes : List Route := [" + ", ".join("." + r for r in reps) + "]\n\n"
        + "/-- every route that hands a default-registry object back on a registry of its own, with the probed\n"
        + "    origin of the same kind -/\n"
        + "def originRep : List (Route × Route) := [" + ", ".join(f"(.{r}, .{rep[r]})" for r in private) + "]\n\n"
        + "end Unyt.Generated\n"
    )
    X.write_if_changed(os.path.join(X.GEN, "PersistOrigins.lean"), text)
    return {"private": private, "origin_rep": rep, "reps": reps, "flags": flags, "notes": notes,
            "unobservable": unobservable, "kinds": {v: list(map(str, k)) for k, v in kinds.items()}}
