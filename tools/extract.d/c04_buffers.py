"""C04 translator plugin: the buffer discipline of the two-input branch of `unyt_array.__array_ufunc__`.

An `ast` pass over the live source: the `elif len(inputs) == 2:` branch and the wrap-up after it are walked
in statement order; every statement that reads or writes one of the arrays (`inp0`, `inp1`, `out_arr`,
`out_func`, `out`) is turned into one `Unyt.Buf.Stmt` (guard = the enclosing `if` conditions, instruction =
what is read, what is multiplied by which coefficient, where the result is stored: a fresh array or an
`out=` buffer, which variable is bound to it).  Conditions the pass does not recognise become free booleans
(`free0`, `free1`: both outcomes are considered by the Lean check); statements it cannot express (a call of
an unknown function on a buffer, a write through an unknown name, an early return) become `Instr.unknown`,
which no contract admits.

Writes lean/UnytModel/Generated/C04Buffers.lean (`binaryStmts : List Unyt.Buf.Stmt`).
"""
import ast
import inspect
import os
import textwrap

TRACKED0 = {"inp0", "inp1", "out_arr", "out_func", "out", "i0", "i1"}
REF = {"inp0": ".inp0", "inp1": ".inp1", "out_arr": ".outArr", "out_func": ".outFunc", "i0": ".inp0", "i1": ".inp1"}
# calls that only read their array arguments (or wrap them in a view)
READERS = {"np.asarray", "np.count_nonzero", "getattr", "isinstance", "type", "np.ptp", "float", "hasattr",
           "np.shares_memory", "_get_binary_op_return_class", "repr", "str", "zip", "bool", "len", "np.shape",
           "_coerce_iterable_units", "_wrap_ufunc_output", "np.array", "tuple", "np.dtype"}


class Unknown(Exception):
    pass


def _txt(n):
    return ast.unparse(n)


def _strip(n):
    """the array variable behind `x`, `x.view(np.ndarray)`, `np.asarray(x, ...)`"""
    while True:
        if isinstance(n, ast.Call) and isinstance(n.func, ast.Attribute) and n.func.attr == "view" and isinstance(n.func.value, (ast.Name, ast.Call)):
            n = n.func.value
            continue
        if isinstance(n, ast.Call) and _txt(n.func) == "np.asarray" and n.args:
            n = n.args[0]
            continue
        break
    if isinstance(n, ast.Name):
        return n.id
    return None


def _coef(n):
    t = _txt(n)
    if t == "conv":
        return ".conv"
    if t == "mul":
        return ".mul"
    if t == "unit.base_value":
        return ".post"
    if t.replace(" ", "") in ("u0.base_value/u1.base_value", "(u0.base_value/u1.base_value)"):
        return ".ratio0"
    return None


class Pass:
    def __init__(self):
        self.tracked = set(TRACKED0)
        self.free = 0
        self.stmts = []      # (guard list, instr text, source line text)
        self.notes = []

    # ---- guards -------------------------------------------------------------------------
    def atom(self, test, guards):
        t = _txt(test)
        if t == "u0 is not u1 and u0 != u1":
            return "conv"
        if any(a == "conv" for a, _ in guards) and "u0.dimensions is temperature" in t and "u1.base_offset != 0.0" in t and "u0.base_offset == 0.0" in t:
            return "tdelta"
        if t.startswith("unit_operator in (") and "_preserve_units" in t and "_multiply_units" not in t:
            return "conv"
        if t.startswith("unit_operator in (") and "_multiply_units" in t and "_preserve_units" not in t:
            return "post"
        if t in ("unit.is_dimensionless and unit.base_value != 1.0", "not u0.is_dimensionless", "u0.dimensions == u1.dimensions"):
            return "post"
        if t in ("out is not None", "out is not None and out_func is None"):
            return "hasOut"
        if t == "mul != 1":
            return "mulPending"
        if t == "np.shares_memory(out_arr, out)":
            return "shared"
        return None

    # ---- effects ------------------------------------------------------------------------
    def mentions(self, node):
        return any(isinstance(x, ast.Name) and x.id in self.tracked for x in ast.walk(node))

    def dst_of(self, call):
        for k in call.keywords:
            if k.arg == "out":
                if isinstance(k.value, ast.Name) and k.value.id in REF:
                    return f"(some {REF[k.value.id]})"
                if isinstance(k.value, ast.Constant) and k.value.value is None:
                    return "none"
                raise Unknown("write through " + _txt(k.value))
        return "none"

    def bind_of(self, target):
        if target is None:
            return "none"
        if isinstance(target, ast.Name) and target.id in REF:
            return f"(some {REF[target.id]})"
        raise Unknown("result bound to " + _txt(target))

    def value_instr(self, value, target):
        """instruction for `target = value` (target None: expression statement)"""
        # x * coef / coef * x
        if isinstance(value, ast.BinOp) and isinstance(value.op, ast.Mult):
            for arr, co in ((value.left, value.right), (value.right, value.left)):
                a, c = _strip(arr), _coef(co)
                if a in REF and c:
                    return f".scale {REF[a]} {c} none {self.bind_of(target)}"
            raise Unknown(_txt(value))
        if isinstance(value, ast.Call):
            f = _txt(value.func)
            if f == "func" and len(value.args) == 2:
                a, b = _strip(value.args[0]), _strip(value.args[1])
                if a in REF and b in REF:
                    return f".kernel {REF[a]} {REF[b]} {self.dst_of(value)} {self.bind_of(target)}"
                raise Unknown(_txt(value))
            if f in ("np.multiply", "multiply") and len(value.args) == 2:
                a, c = _strip(value.args[0]), _coef(value.args[1])
                if a in REF and c:
                    return f".scale {REF[a]} {c} {self.dst_of(value)} {self.bind_of(target)}"
                raise Unknown(_txt(value))
            if f == "_float_out_view" and _txt(value.args[0]) == "out" and isinstance(target, ast.Name) and target.id == "out_func":
                return ".viewOut"
        raise Unknown(_txt(value))

    def harmless(self, st):
        """statements that mention an array but neither write one nor rebind an array variable to other storage"""
        if isinstance(st, ast.Assign) and len(st.targets) == 1:
            tg, v = st.targets[0], st.value
            if isinstance(tg, ast.Attribute) and tg.attr == "units":
                return True                      # out.units = ...
            if isinstance(tg, ast.Tuple) and all(isinstance(e, ast.Name) and e.id not in self.tracked for e in tg.elts):
                return self.only_readers(v)
            if isinstance(tg, ast.Name) and tg.id not in self.tracked:
                # a unit / class / flag computed from the arrays: only reader calls may see them
                if isinstance(v, ast.Name) and v.id in ("out_func", "out", "out_arr"):
                    self.tracked.add(tg.id)      # another name for a writable buffer
                    self.notes.append(f"alias {tg.id} = {v.id}")
                    return True
                return self.only_readers(v)
            if isinstance(tg, ast.Name) and tg.id in ("inp0", "inp1") and isinstance(v, ast.Call) and _txt(v.func) == "_coerce_iterable_units":
                return True
            if isinstance(tg, ast.Name) and tg.id in ("inp0", "inp1") and _txt(v) in (f"np.asarray({tg.id})", f"{tg.id}.view(np.ndarray)"):
                return True                      # the same storage seen as a plain ndarray
            if isinstance(tg, ast.Name) and tg.id == "out_arr" and isinstance(v, ast.Call) and _txt(v.func) in ("_wrap_ufunc_output", "np.array", "tuple"):
                return True                      # the result wrapped in its class (a view)
            if isinstance(tg, ast.Name) and tg.id in ("i0", "i1") and _txt(v) in ("inputs[0]", "inputs[1]"):
                return True
        if isinstance(st, ast.Raise):
            return True
        return False

    def only_readers(self, node):
        for x in ast.walk(node):
            if isinstance(x, ast.Call):
                args = list(x.args) + [k.value for k in x.keywords]
                direct = [a for a in args if (isinstance(a, ast.Name) and a.id in self.tracked)
                          or (isinstance(a, ast.Starred) and self.mentions(a))]
                if any(k.arg == "out" for k in x.keywords):
                    return False
                if direct and _txt(x.func) not in READERS:
                    return False
        return True

    # ---- walk ---------------------------------------------------------------------------
    def walk(self, body, guards):
        for st in body:
            if isinstance(st, ast.If):
                t = _txt(st.test)
                if t == "ufunc in (equal, not_equal)":
                    # `==` / `!=` of incommensurable operands: constant result, early return (modelled by
                    # `dispatchBinary` as `Out.early`; no kernel runs) — outside the buffer program
                    self.notes.append("skipped: early return of ==/!= on different dimensions")
                    continue
                if "'dask' in sys.modules" in t:
                    self.notes.append("skipped: delegation to a dask array operand")
                    continue
                if not self.only_readers(st.test):
                    self.emit(guards, f'.unknown "condition {self.q(t)}"', st)
                a = self.atom(st.test, guards)
                if a is None:
                    # descend with a provisional free guard; keep it only if something happens inside
                    mark = len(self.stmts)
                    name = f"free{self.free}"
                    self.walk(st.body, guards + [(name, True)])
                    self.walk(st.orelse, guards + [(name, False)])
                    if len(self.stmts) > mark:
                        self.free += 1
                        self.notes.append(f"{name}: {t}")
                        if self.free > 2:
                            self.emit(guards, f'.unknown "too many unrecognised conditions: {self.q(t)}"', st)
                    continue
                self.walk(st.body, guards + [(a, True)])
                self.walk(st.orelse, guards + [(a, False)])
                continue
            if _txt(st) == "mul = 1":
                self.emit(guards, ".mulDone", st)
                continue
            if not self.mentions(st):
                continue
            if self.harmless(st):
                continue
            try:
                if isinstance(st, ast.Assign) and len(st.targets) == 1:
                    if _txt(st) == "mul = 1":
                        instr = ".mulDone"
                    else:
                        instr = self.value_instr(st.value, st.targets[0])
                elif isinstance(st, ast.AugAssign) and isinstance(st.op, ast.Mult) and isinstance(st.target, ast.Name) and st.target.id in REF and _coef(st.value):
                    r = REF[st.target.id]
                    instr = f".scale {r} {_coef(st.value)} (some {r}) (some {r})"
                elif isinstance(st, ast.Expr) and isinstance(st.value, ast.Call):
                    if self.only_readers(st.value):
                        continue
                    instr = self.value_instr(st.value, None)
                elif isinstance(st, (ast.For, ast.Try)) and self.only_readers(st) and all(
                        self.harmless(x) or not self.mentions(x) or isinstance(x, (ast.If, ast.Continue, ast.ExceptHandler))
                        for x in ast.walk(st) if isinstance(x, ast.stmt) and x is not st):
                    continue
                elif isinstance(st, ast.Return):
                    raise Unknown("return " + _txt(st.value) if st.value else "return")
                else:
                    raise Unknown(_txt(st).splitlines()[0])
            except Unknown as e:
                instr = f'.unknown "{self.q(str(e))}"'
            self.emit(guards, instr, st)

    @staticmethod
    def q(s):
        return s.replace("\\", "\\\\").replace('"', "'").replace("\n", " ")[:120]

    def emit(self, guards, instr, st):
        self.stmts.append((list(guards), instr, _txt(st).splitlines()[0][:110]))


def scan(arr_mod):
    src = textwrap.dedent(inspect.getsource(arr_mod.unyt_array.__array_ufunc__))
    fn = ast.parse(src).body[0]
    top = None
    idx = None
    for k, st in enumerate(fn.body):
        if isinstance(st, ast.If) and _txt(st.test) == "len(inputs) == 1":
            top, idx = st, k
    if top is None or len(top.orelse) != 1 or not isinstance(top.orelse[0], ast.If) or _txt(top.orelse[0].test) != "len(inputs) == 2":
        raise ValueError("the `len(inputs) == 1 / == 2` branches of __array_ufunc__ were not found")
    binary = top.orelse[0].body
    tail = fn.body[idx + 1:]
    P = Pass()
    # before the branch: only the `out` bookkeeping may touch the arrays
    P.walk(binary, [])
    # the wrap-up; its last two statements are the return
    if (len(tail) >= 2 and isinstance(tail[-2], ast.If) and _txt(tail[-2].test) == "mul == 1" and not tail[-2].orelse
            and len(tail[-2].body) == 1 and _txt(tail[-2].body[0]) == "return out_arr" and _txt(tail[-1]) == "return mul * out_arr"):
        P.walk(tail[:-2], [])
        P.stmts.append(([], ".retMul", "if mul == 1: return out_arr / return mul * out_arr"))
    else:
        P.walk(tail, [])
        P.stmts.append(([], '.unknown "the return of __array_ufunc__ was not recognised"', "return"))
    # statements of the wrap-up that belong to other branches (`unit is None`, modf/divmod tuples) appear under
    # free guards only if they touch buffers
    return P


def generate(X):
    import unyt.array as arr_mod

    P = scan(arr_mod)

    def lguard(g):
        return "[" + ", ".join(f"(.{a}, {'true' if pol else 'false'})" for a, pol in g) + "]"

    rows = []
    for g, instr, line in P.stmts:
        rows.append(f"  -- {line}\n  ⟨{lguard(g)}, {instr}⟩")
    text = (
        X.header("UnytModel.UfuncBuffers")
        + "namespace Unyt.Generated.C04Buf\nopen Unyt.Buf\n\n"
        + "/-- the statements of the two-input branch of `unyt_array.__array_ufunc__` and of the wrap-up after it that\n"
        + "    read or write an array, in source order, with the conditions they run under (regenerated from the\n"
        + "    live source by tools/extract.d/c04_buffers.py) -/\n"
        + "def binaryStmts : List Stmt := [\n" + ",\n".join(rows) + "\n]\n\n"
        + "end Unyt.Generated.C04Buf\n"
    )
    X.write_if_changed(os.path.join(X.GEN, "C04Buffers.lean"), text)
    return {"stmts": [[[list(a) for a in g], i, ln] for g, i, ln in P.stmts], "notes": P.notes}
