"""C17 translator plugin: the Python type of the conversion factor.
Regenerates lean/UnytModel/Generated/FactorTables.lean

  * `liveUnitBaseKinds` — `type(base_value)` of EVERY entry of the live default unit table
                          (Python float / Python int / NumPy floating scalar of item size n);
  * `liveFactor`        — the distinct base kinds, and per factor kind the NumPy facts the conversion
                          code relies on: dtype of `array * factor`, permission of `array *= factor`;
  * `liveFactorRules`   — for which `self.dtype.kind` the product `data * factor` is cast to
                          `new_dtype` in `in_units` and in `in_base` (ast pass over array.py: the cast
                          statements of `ret` and the dtype-kind tests guarding them);
  * `observedRatio`     — `type(old.base_value / new.base_value)` for one representative of every pair
                          of base kinds (live objects), and the shape of `_get_conversion_factor`;
  * `observedFactorRoutes` — the outcome (result dtype / exception class) of the live library for
                          every factor kind x same-dimension route x dtype x scalar/array, on a
                          representative unit pair whose factor has that kind.
"""
import ast
import os
import re
import warnings

import numpy as np

ALLK = ["i", "u", "f", "c", "b"]
ROUTES = ["to", "in_units", "to_value", "in_base", "convert_to_units", "convert_to_base"]
RN = {"to": ".to", "in_units": ".inUnits", "to_value": ".toValue", "in_base": ".inBase",
      "convert_to_units": ".convertToUnits", "convert_to_base": ".convertToBase"}


def base_kind(v):
    if type(v) is float:
        return "pyfloat"
    if type(v) is int:
        return "pyint"
    if isinstance(v, np.floating):
        return f"npfloat{np.dtype(type(v)).itemsize}"
    raise LookupError(f"base value of type {type(v).__name__}: not modelled")


factor_kind = base_kind  # same spelling; a factor is never a Python int (true division)


def lbk(k):
    return ".pyfloat" if k == "pyfloat" else ".pyint" if k == "pyint" else f"(.npfloat {int(k[7:])})"


def sample_factor(fk):
    return 1.5 if fk == "pyfloat" else np.dtype("f" + fk[7:]).type(1.5)


# ------------------------------------------------------------------------------------------
# source: where is the product cast?


def _guard_kinds(test, negate):
    """kinds selected by a test on `self.dtype.kind` (None if the test is about something else)"""
    s = ast.unparse(test)
    if "dtype.kind" not in s:
        return None
    m = re.fullmatch(r"self\.dtype\.kind (in|not in) (\([^)]*\)|\[[^\]]*\]|'[a-z]+')", s)
    if m:
        lit = ast.literal_eval(m.group(2))
        ks = [str(x) for x in lit]
        inv = (m.group(1) == "not in") != negate
    else:
        m = re.fullmatch(r"self\.dtype\.kind (==|!=) '(\w)'", s)
        if not m:
            raise LookupError(f"cast of the product guarded by an unrecognised dtype-kind test: {s}")
        ks = [m.group(2)]
        inv = (m.group(1) == "!=") != negate
    return [k for k in ALLK if (k not in ks)] if inv else [k for k in ALLK if k in ks]


def cast_kinds(fn, what):
    """dtype kinds for which `ret` (the product data * factor) is cast to a computed dtype"""
    rx_cast = re.compile(r"ret = (np\.asarray\(.*, dtype=\w+\)|np\.array\(.*, dtype=\w+.*\)|ret\.astype\(.*\)|np\.asarray\(ret, dtype=.*\))")
    rx_prod = re.compile(r"ret = .*self\.(ndview|v|d|value) \* \w+.*")
    found_prod = False
    kinds = set()

    def walk(stmts, guards):
        nonlocal found_prod
        for st in stmts:
            if isinstance(st, ast.If):
                g_then = _guard_kinds(st.test, False)
                g_else = _guard_kinds(st.test, True)
                walk(st.body, guards + ([g_then] if g_then is not None else []))
                walk(st.orelse, guards + ([g_else] if g_else is not None else []))
            elif isinstance(st, (ast.Try,)):
                walk(st.body, guards)
                for h in st.handlers:
                    walk(h.body, guards)
                walk(st.orelse, guards)
                walk(st.finalbody, guards)
            elif isinstance(st, (ast.With, ast.For, ast.While)):
                walk(st.body, guards)
            elif isinstance(st, ast.Assign):
                s = ast.unparse(st).split("\n")[0]
                if rx_prod.fullmatch(s):
                    found_prod = True
                if rx_cast.fullmatch(s):
                    sel = set(ALLK)
                    for g in guards:
                        sel &= set(g)
                    kinds.update(sel)

    walk(fn.body, [])
    if not found_prod:
        raise LookupError(f"{what}: the product `ret = data * factor` was not found")
    return [k for k in ALLK if k in kinds]


def offset_step(fn, what):
    """form of the statement under `if offset:`"""
    for node in ast.walk(fn):
        if isinstance(node, ast.If) and ast.unparse(node.test) == "offset":
            if len(node.body) != 1 or node.orelse:
                raise LookupError(f"{what}: `if offset:` has an unrecognised body")
            st = ast.unparse(node.body[0])
            if re.fullmatch(r"np\.subtract\((\w+), offset, (out=)?\1\)", st) or re.fullmatch(r"(\w+) -= offset", st):
                return "outBuffer"
            if re.fullmatch(r"(\w+) = \1 - offset", st):
                return "rebind"
            raise LookupError(f"{what}: offset step not recognised: {st}")
    raise LookupError(f"{what}: no `if offset:` statement")


def source_rules(repo):
    tree = ast.parse(open(os.path.join(repo, "unyt", "array.py"), encoding="utf-8").read())
    fns = {}
    for node in ast.walk(tree):
        if isinstance(node, ast.ClassDef) and node.name == "unyt_array":
            for f in node.body:
                if isinstance(f, ast.FunctionDef):
                    fns[f.name] = f
    R = {"copyCastKinds": cast_kinds(fns["in_units"], "in_units"), "inBaseCastKinds": cast_kinds(fns["in_base"], "in_base"),
         "copyStep": offset_step(fns["in_units"], "in_units"), "inBaseStep": offset_step(fns["in_base"], "in_base"),
         "inplaceStep": offset_step(fns["convert_to_units"], "convert_to_units")}
    # _get_conversion_factor: the factor is the quotient of the two base values, returned as it is
    utree = ast.parse(open(os.path.join(repo, "unyt", "unit_object.py"), encoding="utf-8").read())
    g = [n for n in utree.body if isinstance(n, ast.FunctionDef) and n.name == "_get_conversion_factor"]
    if not g:
        raise LookupError("_get_conversion_factor not found")
    src = [ast.unparse(n).split("\n")[0] for n in ast.walk(g[0]) if isinstance(n, ast.stmt)]
    for need in ("old_basevalue = old_units.base_value", "new_basevalue = new_units.base_value",
                 "ratio = old_basevalue / new_basevalue", "return (ratio, None)",
                 "old_baseoffset = old_units.base_offset", "new_baseoffset = new_units.base_offset",
                 "return (ratio, ratio * old_baseoffset - new_baseoffset)"):
        if need not in src:
            raise LookupError(f"_get_conversion_factor: source shape not recognised: {need}")
    # which base value a Unit object carries (UnitShape): a bare symbol hands the table entry on,
    # everything else goes through float(...)
    g = [n for n in utree.body if isinstance(n, ast.FunctionDef) and n.name == "_get_unit_data_from_expr"]
    if not g:
        raise LookupError("_get_unit_data_from_expr not found")
    src = [ast.unparse(n).split("\n")[0] for n in ast.walk(g[0]) if isinstance(n, ast.stmt)]
    for need in ("return (float(base_value), dimensions)", "conv = float(unit_data[0] ** power)", "return (conv, unit)",
                 "return (float(unit_expr), sympy_one)", "return (1.0, sympy_one)",
                 "return _lookup_unit_symbol(unit_expr.name, unit_symbol_lut, derived_symbols)"):
        if need not in src:
            raise LookupError(f"_get_unit_data_from_expr: source shape not recognised: {need}")
    new = None
    for node in ast.walk(utree):
        if isinstance(node, ast.ClassDef) and node.name == "Unit":
            for f in node.body:
                if isinstance(f, ast.FunctionDef) and f.name == "__new__":
                    new = f
    if new is None or "base_value = float(base_value)" not in [ast.unparse(n).split("\n")[0] for n in ast.walk(new) if isinstance(n, ast.stmt)]:
        raise LookupError("Unit.__new__: `base_value = float(base_value)` for caller-supplied base values not found")
    return R


# ------------------------------------------------------------------------------------------


def generate(X):
    import importlib.util

    here = os.path.dirname(os.path.abspath(__file__))
    spec = importlib.util.spec_from_file_location("c17_dtype_for_factor", os.path.join(here, "c17_dtype.py"))
    D = importlib.util.module_from_spec(spec)
    spec.loader.exec_module(D)

    import unyt
    from unyt import Unit, unyt_array, unyt_quantity
    from unyt.unit_registry import default_unit_registry

    lut = default_unit_registry.lut
    U = D.universe()
    R = source_rules(X.REPO)

    table = []
    by_kind = {}
    for sym in sorted(lut):
        v = lut[sym]
        bk = base_kind(v[0])
        table.append((sym, bk))
        by_kind.setdefault(bk, []).append(sym)
    base_kinds = sorted(by_kind)
    for sym, v in lut.items():
        if type(v[2]) not in (float, int):
            raise LookupError(f"base offset of {sym} has type {type(v[2]).__name__}: not modelled (offsetKind)")
    offset_units = sorted((s_ for s_, v in lut.items() if v[2] != 0), key=lambda s_: (len(s_), s_))

    # typing of the quotient, on live base values
    obs_ratio = []
    fkinds = []
    for a in base_kinds:
        for b in base_kinds:
            q = lut[by_kind[a][0]][0] / lut[by_kind[b][0]][0]
            fk = factor_kind(q)
            obs_ratio.append([a, b, fk])
            if fk not in fkinds:
                fkinds.append(fk)

    # a representative same-dimension pair per factor kind: (unit, its mks base equivalent) with the
    # factor type checked on the live `get_conversion_factor`
    reps = {}
    for fk in fkinds:
        for a, b, k in obs_ratio:
            if k != fk or fk in reps:
                continue
            for sym in by_kind[a]:
                try:
                    u = Unit(sym)
                    tgt = u.get_base_equivalent("mks")
                    if tgt == u or u.base_offset != 0:
                        continue
                    f, off = u.get_conversion_factor(tgt, np.dtype("f8"))
                except Exception:  # noqa: BLE001
                    continue
                if factor_kind(f) == fk and off is None and str(u.dimensions) in ("(length)", "(mass)", "(time)"):
                    reps[fk] = (sym, str(tgt))
                    break
        if fk not in reps:
            raise LookupError(f"no representative unit pair with a conversion factor of kind {fk}")

    # NumPy facts per factor kind
    mul, imul = [], []
    with warnings.catch_warnings():
        warnings.simplefilter("ignore")
        for fk in fkinds:
            s = sample_factor(fk)
            for d in U:
                r = (np.zeros(2, d) * s).dtype
                r0 = np.asarray(np.zeros((), d) * s).dtype
                if r != r0:
                    raise RuntimeError(f"0-d and n-d promotion with a {fk} factor differ for {d}")
                mul.append([fk, D.key(d), D.key(r)])
                rs = (np.zeros(2, d) - s).dtype
                if rs != r and d.kind != "b":
                    raise RuntimeError(f"promotion of array - {fk} differs from array * {fk} for {d}: {rs} vs {r}")
                try:
                    a = np.zeros(2, d)
                    a *= s
                    imul.append([fk, D.key(d)])
                except TypeError:
                    pass

    # observed outcomes per factor kind
    def mk(d, isq, unit):
        if isq:
            return unyt_quantity(np.array(1, dtype=d), unit)
        return unyt_array(np.array([1, 1], dtype=d), unit)

    def outcome(f):
        with warnings.catch_warnings():
            warnings.simplefilter("ignore")
            try:
                r = f()
            except Exception as e:  # noqa: BLE001
                return ["err", D.exc_class(e)]
        if type(r) is float:
            return ["ok", "f", 8]
        if type(r) is complex:
            return ["ok", "c", 16]
        return ["ok"] + D.key(np.asarray(r).dtype)

    def inplace(x, meth, *a):
        getattr(x, meth)(*a)
        return x

    obs = []
    for fk in fkinds:
        a, b = reps[fk]
        for d in U:
            for isq in (False, True):
                calls = {
                    "to": lambda: mk(d, isq, a).to(b),
                    "in_units": lambda: mk(d, isq, a).in_units(b),
                    "to_value": lambda: mk(d, isq, a).to_value(b),
                    "in_base": lambda: mk(d, isq, a).in_base("mks"),
                    "convert_to_units": lambda: inplace(mk(d, isq, a), "convert_to_units", b),
                    "convert_to_base": lambda: inplace(mk(d, isq, a), "convert_to_base", "mks"),
                }
                for r in ROUTES:
                    obs.append([r, fk, D.key(d), isq, outcome(calls[r])])

    # conversions with a truthy offset, per factor kind: (offset unit -> same-dimension unit) and
    # (offset unit, unit system), found in the live table
    unit_systems = sorted(k for k in unyt.unit_systems.unit_system_registry if isinstance(k, str))
    oreps = {}
    obs_okind = []
    for fk in fkinds:
        pair = base = None
        for a in offset_units:
            ua = Unit(a)
            if pair is None:
                for b in sorted(lut, key=lambda s_: (len(s_), s_)):
                    if b == a or lut[b][1] != lut[a][1]:
                        continue
                    try:
                        f, off = ua.get_conversion_factor(Unit(b), np.dtype("f8"))
                    except Exception:  # noqa: BLE001
                        continue
                    if off and factor_kind(f) == fk:
                        pair = (a, b)
                        obs_okind.append([fk, factor_kind(off)])
                        break
            if base is None:
                for sname in unit_systems:
                    try:
                        tgt = ua.get_base_equivalent(sname)
                        f, off = ua.get_conversion_factor(tgt, np.dtype("f8"))
                    except Exception:  # noqa: BLE001
                        continue
                    if off and factor_kind(f) == fk:
                        base = (a, sname)
                        obs_okind.append([fk, factor_kind(off)])
                        break
            if pair and base:
                break
        if pair and base:
            oreps[fk] = (pair, base)
    obs_off = []
    for fk, ((a, b), (a2, sname)) in oreps.items():
        for d in U:
            for isq in (False, True):
                calls = {
                    "to": lambda: mk(d, isq, a).to(b),
                    "in_units": lambda: mk(d, isq, a).in_units(b),
                    "to_value": lambda: mk(d, isq, a).to_value(b),
                    "in_base": lambda: mk(d, isq, a2).in_base(sname),
                    "convert_to_units": lambda: inplace(mk(d, isq, a), "convert_to_units", b),
                    "convert_to_base": lambda: inplace(mk(d, isq, a2), "convert_to_base", sname),
                }
                for r in ROUTES:
                    obs_off.append([r, fk, D.key(d), isq, outcome(calls[r])])

    def dl(k):
        return f"⟨.{k[0]}, {k[1]}⟩"

    def lfk(k):
        return lbk(k)

    L = [X.header("UnytModel.DtypeFactor"), "namespace Unyt.Generated\nopen Unyt\n"]
    L.append("/-- where /repo/unyt/array.py casts the product data * factor to new_dtype (ast) -/")
    L.append("def liveFactorRules : FactorRules where")
    L.append(f"  copyCastKinds := [{', '.join('.' + k for k in R['copyCastKinds'])}]")
    L.append(f"  inBaseCastKinds := [{', '.join('.' + k for k in R['inBaseCastKinds'])}]")
    L.append("")
    L.append(f"/-- type(base_value) of every entry of the live default unit table ({len(table)} entries) -/")
    L.append("def liveUnitBaseKinds : List (String × BaseKind) := [")
    L.append(",\n".join(f"  ({X.lstr(s)}, {lbk(k)})" for s, k in table) + "]")
    L.append("")
    L.append(f"/-- NumPy {np.__version__} facts per factor kind -/")
    L.append("def liveFactor : FactorFacts where")
    L.append(f"  baseKinds := [{', '.join(lbk(k) for k in base_kinds)}]")
    L.append("  mulFactor := [\n    " + ",\n    ".join(f"(({lfk(fk)}, {dl(a)}), {dl(b)})" for fk, a, b in mul) + "]")
    L.append("  imulFactorOk := [\n    " + ",\n    ".join(f"({lfk(fk)}, {dl(a)})" for fk, a in imul) + "]")
    L.append("")
    L.append("/-- observed: type(old.base_value / new.base_value) per pair of base kinds (live objects) -/")
    L.append("def observedRatio : List (BaseKind × BaseKind × FactorKind) := [")
    L.append(",\n".join(f"  ({lbk(a)}, {lbk(b)}, {lfk(k)})" for a, b, k in obs_ratio) + "]")
    L.append("")
    L.append("/-- observed on the live library: (route, factor kind, dtype, is-quantity) ↦ result dtype or exception class;")
    L.append("    representative pairs: " + ", ".join(f"{fk}: {a} -> {b}" for fk, (a, b) in reps.items()) + " -/")
    L.append("def observedFactorRoutes : List (Route × FactorKind × Dtype × Bool × Except Err Dtype) := [")
    L.append(",\n".join(f"  ({RN[r]}, {lfk(fk)}, {dl(k)}, {'true' if q else 'false'}, {D.lout(o)})" for r, fk, k, q, o in obs) + "]")
    L.append("")
    L.append("/-- the form of the offset step in in_units / in_base / convert_to_units (ast) -/")
    L.append("def liveOffsetRules : OffsetRules where")
    L.append(f"  copyStep := .{R['copyStep']}")
    L.append(f"  inBaseStep := .{R['inBaseStep']}")
    L.append(f"  inplaceStep := .{R['inplaceStep']}")
    L.append("")
    L.append("/-- observed: (type of the ratio, type of the offset) of live conversions with a truthy offset -/")
    L.append("def observedOffsetKind : List (FactorKind × FactorKind) := [" + ", ".join(f"({lfk(a)}, {lfk(b)})" for a, b in obs_okind) + "]")
    L.append("")
    L.append("/-- observed on the live library, conversions with a truthy offset: (route, factor kind, dtype, is-quantity) ↦ outcome;")
    L.append("    representatives: " + ", ".join(f"{fk}: {p[0]} -> {p[1]}, {q[0]}.in_base({q[1]})" for fk, (p, q) in oreps.items()) + " -/")
    L.append("def observedOffsetRoutes : List (Route × FactorKind × Dtype × Bool × Except Err Dtype) := [")
    L.append(",\n".join(f"  ({RN[r]}, {lfk(fk)}, {dl(k)}, {'true' if q else 'false'}, {D.lout(o)})" for r, fk, k, q, o in obs_off) + "]")
    L.append("\nend Unyt.Generated\n")
    X.write_if_changed(os.path.join(X.GEN, "FactorTables.lean"), "\n".join(L))
    return {"rules": R, "base_kinds": base_kinds, "factor_kinds": fkinds, "units_by_kind": {k: v for k, v in by_kind.items() if k != "pyfloat"},
            "n_units": len(table), "reps": {k: list(v) for k, v in reps.items()}, "observed_ratio": obs_ratio,
            "mul": mul, "imul": imul, "observed_routes": obs,
            "offset_units": offset_units, "offset_reps": {k: [list(p), list(q)] for k, (p, q) in oreps.items()},
            "observed_offset_kind": obs_okind, "observed_offset_routes": obs_off}
