"""C14 translator plugin: the name tables and the three attribute routes of the live library.

Regenerates (from the objects of the unyt that is being checked):

  UnytModel/Generated/C14Base.lean    unit table, prefixes, default_unit_name_alternatives (the
                                      generator's *inputs*), the flat base-name rows the reference
                                      resolver reads, the parser's global names, Python's case
                                      data for every non-ASCII character occurring in the inputs,
                                      name_alternatives (the generator's output, grouped), the
                                      custom registry's table rows and extra namespace entries
  UnytModel/Generated/C14Rows.lean    one row per listed name, in `inv_name_alternatives` order,
                                      16 chunks: (name, inv_name_alternatives[name], the key of
                                      name_alternatives that lists it, expression symbol of
                                      unyt.unit_symbols.<name>, of unyt.<name>, of the add_symbols
                                      namespace of a custom registry)
  UnytModel/Generated/C14Tree.lean    the same map name -> (inv target, listing key) as a balanced
                                      search tree (what the model's dict look-up walks)

Every name travels as its *code*: the little-endian base-2^21 numeral of (code point + 1), see
UnytModel/NameCode.lean.  The kernel compares numerals in one step, strings in thousands.
"""
import os

B = 2097152
ABSENT = 1  # code of "\x00": never a name; marks "no such attribute / not a Unit"
NCHUNK = 16


def code(s):
    n = 0
    for ch in reversed(s):
        n = n * B + ord(ch) + 1
    return n


def dict_literal(items):
    """`Dict` literal (UnytModel/NameCode.lean) of (code, lean-term) pairs: a balanced search tree"""
    srt = sorted(items, key=lambda kv: kv[0])
    for a, b in zip(srt, srt[1:]):
        if a[0] == b[0]:
            raise ValueError("two keys with the same code")

    def go(lo, hi):
        if lo >= hi:
            return ".leaf"
        mid = (lo + hi) // 2
        k, v = srt[mid]
        return f"(.node {go(lo, mid)} {k} {v} {go(mid + 1, hi)})"

    return go(0, len(srt))


def make_custom_registry(unyt):
    """the custom registry whose add_symbols namespace is the third attribute route:
    fresh default table + a prefixable and a non-prefixable user unit + one modified built-in"""
    from unyt.unit_registry import UnitRegistry
    import unyt.dimensions as D

    reg = UnitRegistry()
    reg.add("c14foo", 3.5, D.length, prefixable=True)
    reg.add("c14bar", 0.125, D.time)
    reg.modify("pc", 2.0 * reg.lut["pc"][0])
    return reg


CUSTOM_RECIPE = (
    "from unyt.unit_registry import UnitRegistry\nimport unyt.dimensions as D\n"
    "reg = UnitRegistry(); reg.add('c14foo', 3.5, D.length, prefixable=True); reg.add('c14bar', 0.125, D.time)\n"
    "reg.modify('pc', 2.0*reg.lut['pc'][0])\n"
)


def expr_symbol(u):
    """the single symbol a namespace unit's expression consists of (None when it is not atomic)"""
    import sympy

    e = u.expr
    if isinstance(e, sympy.Symbol):
        return str(e)
    return None


def char_class(ch):
    if ch.isupper():
        return 2
    if ch.islower():
        return 1
    if ch.istitle():
        return 3
    return 0


def generate(X):
    import sympy  # noqa: F401
    import unyt
    import unyt.unit_symbols as us
    from unyt import Unit
    from unyt import _unit_lookup_table as ult
    from unyt import _parsing
    from unyt.unit_systems import add_symbols

    LUT = ult.default_unit_symbol_lut
    PRE = ult.unit_prefixes
    ALT = ult.default_unit_name_alternatives
    INV = ult.inv_name_alternatives
    NA = ult.name_alternatives

    def raw(v):
        # an `Entry Nat`: (scale bits, dimension, offset bits, prefixable)
        vec = X.dim_vec(v[1])
        return f"⟨{X.bits(v[0])}, {X.ldim(vec)}, {X.bits(v[2])}, {'true' if v[4] else 'false'}⟩"

    def nlist(xs):
        return "[" + ", ".join(str(x) for x in xs) + "]"

    # ---------------------------------------------------------------- base tables
    lut_rows = [f"  ({code(k)}, {raw(v)})" for k, v in LUT.items()]
    pre_rows = [f"  ({code(k)}, {X.bits(v[0])})" for k, v in PRE.items()]
    preword_rows = [f"  ({code(k)}, {code(v[1])})" for k, v in PRE.items()]
    alt_rows = [f"  ({code(k)}, {nlist(code(a) for a in v)})" for k, v in ALT.items()]
    # flat rows the reference resolver reads: every table key and every alias of the INPUT table,
    # with its lower-cased form (checked against the model's `pyLower` by the kernel)
    base = []
    for k, v in LUT.items():
        base.append((k.lower(), k, k, bool(v[4])))
        for a in ALT.get(k, ()):
            base.append((a.lower(), a, k, bool(v[4])))
    base_rows = [f"  ({code(lw)}, {code(w)}, {code(c)}, {'true' if p else 'false'})" for lw, w, c, p in base]
    # the same rows as a search tree over the lower-cased spelling (bucket = rows sharing it)
    buckets = {}
    for lw, w, c, p in base:
        buckets.setdefault(code(lw), []).append((code(w), code(c), p))
    base_tree = dict_literal(
        [(k, "[" + ", ".join(f"({w}, {c}, {'true' if p else 'false'})" for w, c, p in b) + "]") for k, b in buckets.items()]
    )
    # parser globals that shadow a NAME token (the predicate of _auto_positive_symbol)
    rewritten = dict(getattr(_parsing, "_rewritten_name_alternatives", {}))
    gd = _parsing.global_dict
    pglobals = [k for k, o in gd.items() if isinstance(o, (sympy.Basic, type)) or callable(o)]
    # Python's case data of every non-ASCII character of the inputs
    chars = set()
    for k in LUT:
        chars.update(k)
    for k, v in ALT.items():
        chars.update(k)
        for a in v:
            chars.update(a)
    for k, v in PRE.items():
        chars.update(k)
        chars.update(v[1])
    char_rows = []
    char_json = {}
    for ch in sorted(c for c in chars if ord(c) > 127):
        lo, up, ti = ch.lower(), ch.upper(), ch.title()
        if len(lo) != 1 or len(up) != 1 or len(ti) != 1:
            raise ValueError(f"character {ch!r} has a multi-character case mapping; the model does not cover it")
        char_rows.append(f"  ({ord(ch)}, {ord(lo)}, {ord(up)}, {ord(ti)}, {char_class(ch)})")
        char_json[ch] = [lo, up, ti, char_class(ch)]
    names_rows = [f"  ({code(k)}, {nlist(code(a) for a in v)})" for k, v in NA.items()]

    # ---------------------------------------------------------------- the three attribute routes
    nkey = {}
    for k, alts in NA.items():
        for a in alts:
            if a in nkey:
                raise ValueError(f"name {a!r} is listed under two keys of name_alternatives")
            nkey[a] = k
    us_attrs = {k: v for k, v in vars(us).items() if isinstance(v, Unit)}
    top_units = {k: v for k, v in vars(unyt).items() if isinstance(v, Unit)}
    reg = make_custom_registry(unyt)
    ns = {}
    add_symbols(ns, reg)
    foreign = [k for k, v in ns.items() if getattr(v, "registry", None) is not reg]

    def sym_code(u):
        s = expr_symbol(u)
        return ABSENT if s is None else code(s)

    rows = []
    jrows = {}
    for n, okey in INV.items():
        u1 = us_attrs.get(n)
        u2 = top_units.get(n)
        u3 = ns.get(n)
        r = (code(n), code(okey), code(nkey[n]) if n in nkey else ABSENT,
             sym_code(u1) if u1 is not None else ABSENT,
             sym_code(u2) if u2 is not None else ABSENT,
             sym_code(u3) if u3 is not None and u3.registry is reg else ABSENT)
        rows.append(r)
        jrows[n] = [okey, nkey.get(n), expr_symbol(u1) if u1 is not None else None,
                    expr_symbol(u2) if u2 is not None else None, expr_symbol(u3) if u3 is not None else None]
    per = (len(rows) + NCHUNK - 1) // NCHUNK
    names_in_order = list(INV.keys())
    witness_chunk = names_in_order.index("kilo°C") // per if "kilo°C" in INV else NCHUNK
    chunk_defs = []
    for i in range(NCHUNK):
        part = rows[i * per:(i + 1) * per]
        chunk_defs.append(
            f"def rows{i} : List NameRow := [\n"
            + ",\n".join("  ⟨" + ", ".join(str(x) for x in r) + "⟩" for r in part)
            + "\n]\n"
        )
    # attributes that are not listed names (expected: none besides what the routes add themselves)
    us_extra = [(k, expr_symbol(v)) for k, v in us_attrs.items() if k not in INV]
    top_extra = [(k, expr_symbol(v)) for k, v in top_units.items() if k not in INV]
    ns_extra = [(k, expr_symbol(v)) for k, v in ns.items() if k not in INV]
    # names of unit_symbols whose top-level attribute is something else (shadowed by import order)
    shadowed = [k for k in us_attrs if k not in top_units]
    shadow_kind = {k: type(getattr(unyt, k, None)).__name__ for k in shadowed}
    # the custom registry's table: rows that differ from the default table
    custom_rows = []
    custom_json = {}
    custom_all = []
    for k, v in reg.lut.items():
        if not (k not in LUT and not v[4] and any(k.startswith(p) and k[len(p):] in reg.lut for p in PRE)):
            custom_all.append((code(k), raw(v)))
        if k in LUT and LUT[k][0] == v[0] and LUT[k][1] == v[1] and LUT[k][2] == v[2] and LUT[k][4] == v[4]:
            continue
        if k not in LUT and not v[4] and any(k.startswith(p) and k[len(p):] in reg.lut for p in PRE):
            continue  # derived prefixed entry written back by a look-up
        custom_rows.append(f"  ({code(k)}, {raw(v)})")
        custom_json[k] = [X.bits(v[0]), X.bits(v[2]), bool(v[4])]

    def pairs(xs):
        return "[" + ", ".join(f"({code(a)}, {ABSENT if b is None else code(b)})" for a, b in xs) + "]"

    text = (
        X.header("UnytModel.Lut", "UnytModel.NameCode")
        + "namespace Unyt.Generated.C14\n\n"
        + "/-- `default_unit_symbol_lut`: keys as name codes, base_value and base_offset as bit patterns -/\n"
        + "def lutC : List (Nat × Entry Nat) := [\n" + ",\n".join(lut_rows) + "\n]\n\n"
        + "/-- `unit_prefixes`: symbol ↦ value bits -/\n"
        + "def prefixesC : List (Nat × Nat) := [\n" + ",\n".join(pre_rows) + "\n]\n\n"
        + "/-- the same two tables as dicts (what the model's look-ups walk) -/\n"
        + f"def lutT : Dict (Entry Nat) := {dict_literal([(code(k), raw(v)) for k, v in LUT.items()])}\n\n"
        + f"def prefixesT : Dict Nat := {dict_literal([(code(k), X.bits(v[0])) for k, v in PRE.items()])}\n\n"
        + "/-- `_parsing._rewritten_name_alternatives`: documented names containing `°`, keyed by their rewritten\n"
        + "    spelling (`kilodegC` ↦ `kdegC`); empty for an unyt that has no such table -/\n"
        + f"def rewrittenT : Dict Nat := {dict_literal([(code(k), code(v)) for k, v in rewritten.items()])}\n\n"
        + "/-- `unit_prefixes`: symbol ↦ word form -/\n"
        + "def prefixWordsC : List (Nat × Nat) := [\n" + ",\n".join(preword_rows) + "\n]\n\n"
        + "/-- `default_unit_name_alternatives` (input of the generator) -/\n"
        + "def altsInC : List (Nat × List Nat) := [\n" + ",\n".join(alt_rows) + "\n]\n\n"
        + "/-- every table key and input alias: (lower-cased, spelling, table key, prefixable) -/\n"
        + "def baseRowsC : List (Nat × Nat × Nat × Bool) := [\n" + ",\n".join(base_rows) + "\n]\n\n"
        + "/-- the same rows keyed by the lower-cased spelling: bucket of (spelling, table key, prefixable) -/\n"
        + f"def baseTreeC : BaseTree := {base_tree}\n\n"
        + "/-- names of `_parsing.global_dict` that a NAME token is passed through for -/\n"
        + f"def parserGlobalsC : List Nat := {nlist(code(g) for g in pglobals)}\n\n"
        + "/-- Python's case data of the non-ASCII characters of the inputs: (cp, lower, upper, title, class 0 uncased 1 lower 2 upper 3 title) -/\n"
        + "def charTable : List (Nat × Nat × Nat × Nat × Nat) := [\n" + ",\n".join(char_rows) + "\n]\n\n"
        + "/-- `name_alternatives` (output of the generator, grouped by listing key, insertion order) -/\n"
        + "def namesOutC : List (Nat × List Nat) := [\n" + ",\n".join(names_rows) + "\n]\n\n"
        + "/-- rows of the custom registry's table that differ from the default table -/\n"
        + "def customLutC : List (Nat × Entry Nat) := [\n" + ",\n".join(custom_rows) + "\n]\n\n"
        + "/-- the custom registry's whole table as a dict (derived prefixed entries left out) -/\n"
        + f"def customLutT : Dict (Entry Nat) := {dict_literal(custom_all)}\n\n"
        + "/-- attributes of the three namespaces that are not listed names: (name, expression symbol) -/\n"
        + f"def usExtraC : List (Nat × Nat) := {pairs(us_extra)}\n"
        + f"def topExtraC : List (Nat × Nat) := {pairs(top_extra)}\n"
        + f"def customExtraC : List (Nat × Nat) := {pairs(ns_extra)}\n\n"
        + "/-- names of `unyt.unit_symbols` whose top-level attribute is not a Unit (shadowed) -/\n"
        + f"def shadowedC : List Nat := {nlist(code(k) for k in shadowed)}\n\n"
        + "/-- units of the custom namespace that do not belong to the custom registry -/\n"
        + f"def customForeignC : List Nat := {nlist(code(k) for k in foreign)}\n\n"
        + "end Unyt.Generated.C14\n"
    )
    X.write_if_changed(os.path.join(X.GEN, "C14Base.lean"), text)

    text = (
        X.header()
        + "namespace Unyt.Generated.C14\n\n"
        + "/-- one listed name: its code, `inv_name_alternatives[name]`, the `name_alternatives` key listing it,\n"
        + "    and the expression symbol of the unit reached as `unyt.unit_symbols.<name>`, `unyt.<name>` and through\n"
        + "    `add_symbols` of the custom registry (1 = no such unit attribute) -/\n"
        + "structure NameRow where\n  name : Nat\n  okey : Nat\n  nkey : Nat\n  usSym : Nat\n  topSym : Nat\n  customSym : Nat\n\n"
        + "\n".join(chunk_defs)
        + "\n/-- index of the chunk that holds the row of the name `kilo°C` (16: not a listed name) -/\n"
        + f"def witnessChunk : Nat := {witness_chunk}\n"
        + "\nend Unyt.Generated.C14\n"
    )
    X.write_if_changed(os.path.join(X.GEN, "C14Rows.lean"), text)

    # ---------------------------------------------------------------- search tree (name -> okey, nkey)
    srt = sorted(rows, key=lambda r: r[0])
    for a, b in zip(srt, srt[1:]):
        if a[0] == b[0]:
            raise ValueError("two names with the same code")

    def tree(lo, hi):
        if lo >= hi:
            return ".leaf"
        mid = (lo + hi) // 2
        r = srt[mid]
        return f"(.node {tree(lo, mid)} {r[0]} ({r[1]}, {r[2]}) {tree(mid + 1, hi)})"

    # cut the tree into 16 sub-definitions so that no single term is huge
    cuts = []
    subdefs = []

    def tree_cut(lo, hi, depth):
        if lo >= hi:
            return ".leaf"
        if depth == 4:
            name = f"sub{len(subdefs)}"
            subdefs.append(f"def {name} : NameTree := {tree(lo, hi)}\n")
            return name
        mid = (lo + hi) // 2
        r = srt[mid]
        return f"(.node {tree_cut(lo, mid, depth + 1)} {r[0]} ({r[1]}, {r[2]}) {tree_cut(mid + 1, hi, depth + 1)})"

    top = tree_cut(0, len(srt), 0)
    text = (
        X.header("UnytModel.NameCode")
        + "namespace Unyt.Generated.C14\n\n"
        + "\n".join(subdefs)
        + "\n/-- `inv_name_alternatives` (and the listing key) as a search tree over name codes -/\n"
        + f"def invTree : NameTree := {top}\n\n"
        + f"def invCount : Nat := {len(srt)}\n\n"
        + "end Unyt.Generated.C14\n"
    )
    X.write_if_changed(os.path.join(X.GEN, "C14Tree.lean"), text)

    # ---------------------------------------------------------------- what the per-key generator obligations read
    pos = {n: i for i, n in enumerate(INV)}
    starts = []
    for k in LUT:
        if k not in pos:
            raise ValueError(f"table key {k!r} is not a key of inv_name_alternatives")
        starts.append(pos[k])  # the first append of a key's iteration is the key itself
    starts.append(len(INV))
    text = (
        X.header("UnytModel.NameCode")
        + "namespace Unyt.Generated.C14\n\n"
        + "/-- position of every listed name in `inv_name_alternatives` (insertion order) -/\n"
        + f"def posTree : Dict Nat := {dict_literal([(code(n), i) for n, i in pos.items()])}\n\n"
        + "/-- `name_alternatives` as a dict: listing key ↦ names in the order they were appended -/\n"
        + f"def namesOutT : Dict (List Nat) := {dict_literal([(code(k), nlist(code(a) for a in v)) for k, v in NA.items()])}\n\n"
        + "/-- position of each table key's own name (= where its iteration of the generator starts), then the total -/\n"
        + f"def keyStarts : List Nat := {nlist(starts)}\n\n"
        + "end Unyt.Generated.C14\n"
    )
    X.write_if_changed(os.path.join(X.GEN, "C14Gen.lean"), text)

    return {
        "B": B,
        "rows": jrows,
        "lut_keys": list(LUT.keys()),
        "prefixes": {k: [X.bits(v[0]), v[1]] for k, v in PRE.items()},
        "alts_in": {k: list(v) for k, v in ALT.items()},
        "base_rows": [[lw, w, c, p] for lw, w, c, p in base],
        "parser_globals": pglobals,
        "rewritten_names": rewritten,
        "chars": char_json,
        "names_out": {k: list(v) for k, v in NA.items()},
        "us_extra": us_extra,
        "top_extra": top_extra,
        "custom_extra": ns_extra,
        "shadowed": shadow_kind,
        "custom_lut": custom_json,
        "custom_foreign": foreign,
        "custom_recipe": CUSTOM_RECIPE,
    }
