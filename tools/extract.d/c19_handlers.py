"""C19 translator plugin: regenerates `UnytModel/Generated/C19CompHelper.lean` from the live source of
`unyt/_array_functions.py`.

* `_array_comp_helper` (the decision logic shared by the `numpy.isclose` / `numpy.allclose` handlers:
  which operand is converted, which one merely adopts the other's unit) is translated, statement by
  statement, into a small *program* (`Unyt.Testing.CompProg`: an if/elif chain whose guards are
  conjunctions of unit (in)equalities and whose bodies are conversions / adoptions) that the
  compiled model **interprets** — the driver's `c19.isclose` / `c19.allclose` run the live program,
  not a hand transcription.  Anything the little language cannot express (a call to another helper, an
  arithmetic conversion by hand, a try/except) becomes `CompAct.unknown "<source text>"`: the
  interpreter then answers `Other`, the kernel-decided obligation `comp_helper_source` (generated
  program = hand-written expected program) fails and names the place, and the correspondence run
  disagrees on every call that reaches that branch.
* the four handler bodies (`isclose`, `allclose`, `array_equal`, `array_equiv`) are emitted as rows
  of normalised source text (`handler_source_shape`).
"""
import ast
import inspect
import os
import textwrap


class Unsupported(Exception):
    pass


def _units_getattr(node):
    """`getattr(<param>, "units", NULL_UNIT)` -> param name, else None"""
    if (isinstance(node, ast.Call) and isinstance(node.func, ast.Name) and node.func.id == "getattr"
            and len(node.args) == 3 and not node.keywords and isinstance(node.args[0], ast.Name)
            and isinstance(node.args[1], ast.Constant) and node.args[1].value == "units"
            and isinstance(node.args[2], ast.Name) and node.args[2].id == "NULL_UNIT"):
        return node.args[0].id
    return None


def comp_helper_program(mod):
    src = textwrap.dedent(inspect.getsource(mod._array_comp_helper))
    fn = ast.parse(src).body[0]
    params = [a.arg for a in fn.args.args]
    if len(params) != 2 or fn.args.vararg or fn.args.kwarg or fn.args.kwonlyargs or fn.args.defaults:
        raise Unsupported(f"_array_comp_helper signature {params}")
    pa, pb = params
    body = [st for st in fn.body if not (isinstance(st, ast.Expr) and isinstance(st.value, ast.Constant))]
    # the unit locals: name -> URef
    uref = {"NULL_UNIT": "null"}
    i = 0
    while i < len(body) and isinstance(body[i], ast.Assign) and len(body[i].targets) == 1 and isinstance(body[i].targets[0], ast.Name):
        p = _units_getattr(body[i].value)
        if p is None:
            break
        uref[body[i].targets[0].id] = "au" if p == pa else "bu" if p == pb else None
        i += 1
    if sorted(v for k, v in uref.items() if k != "NULL_UNIT") != ["au", "bu"]:
        raise Unsupported("the two unit locals of _array_comp_helper were not found: " + ast.unparse(fn)[:300])
    rest = body[i:]
    if len(rest) != 2 or not isinstance(rest[0], ast.If) or not isinstance(rest[1], ast.Return):
        raise Unsupported("_array_comp_helper is not `units; if/elif chain; return`: " + "; ".join(type(s).__name__ for s in rest))

    def test(node):
        if isinstance(node, ast.BoolOp) and isinstance(node.op, ast.And):
            return [t for v in node.values for t in test(v)]
        if (isinstance(node, ast.Compare) and len(node.ops) == 1 and isinstance(node.ops[0], (ast.Eq, ast.NotEq))
                and isinstance(node.left, ast.Name) and isinstance(node.comparators[0], ast.Name)
                and uref.get(node.left.id) and uref.get(node.comparators[0].id)):
            return [(uref[node.left.id], uref[node.comparators[0].id], isinstance(node.ops[0], ast.Eq))]
        raise Unsupported("guard " + ast.unparse(node))

    def act(st):
        text = ast.unparse(st)
        if isinstance(st, ast.Assign) and len(st.targets) == 1 and isinstance(st.targets[0], ast.Name) and st.targets[0].id in (pa, pb):
            tgt = st.targets[0].id
            v = st.value
            # <x>.in_units(<unit local>)
            if (isinstance(v, ast.Call) and isinstance(v.func, ast.Attribute) and v.func.attr == "in_units"
                    and isinstance(v.func.value, ast.Name) and v.func.value.id == tgt and len(v.args) == 1
                    and not v.keywords and isinstance(v.args[0], ast.Name) and uref.get(v.args[0].id) in ("au", "bu")):
                other = "au" if tgt == pb else "bu"
                if uref[v.args[0].id] == other:
                    return ("bInUnitsOfA",) if tgt == pb else ("aInUnitsOfB",)
            # np.array(<x>) * <unit local>
            if (isinstance(v, ast.BinOp) and isinstance(v.op, ast.Mult) and isinstance(v.left, ast.Call)
                    and ast.unparse(v.left.func) in ("np.array", "np.asarray") and len(v.left.args) == 1 and not v.left.keywords
                    and isinstance(v.left.args[0], ast.Name) and v.left.args[0].id == tgt
                    and isinstance(v.right, ast.Name) and uref.get(v.right.id)):
                return ("bAdopts" if tgt == pb else "aAdopts", uref[v.right.id])
        return ("unknown", text)

    branches = []
    node = rest[0]
    while True:
        branches.append((test(node.test), [act(s) for s in node.body]))
        if len(node.orelse) == 1 and isinstance(node.orelse[0], ast.If):
            node = node.orelse[0]
            continue
        if node.orelse:
            branches.append(([], [act(s) for s in node.orelse]))
        break
    r = rest[1].value
    if not (isinstance(r, ast.Tuple) and all(isinstance(e, ast.Name) for e in r.elts)):
        raise Unsupported("return " + ast.unparse(rest[1]))
    ret = ["a" if e.id == pa else "b" if e.id == pb else e.id for e in r.elts]
    return branches, ret


def handler_rows(mod):
    """the bodies of the four comparison handlers, one row per statement, parameters renamed to
    p0, p1 (so renaming a parameter changes nothing), decorators included"""
    rows = []
    for name in ("isclose", "allclose", "array_equal", "array_equiv"):
        f = getattr(mod, name)
        f = inspect.unwrap(f)
        fn = ast.parse(textwrap.dedent(inspect.getsource(f))).body[0]
        ren = {a.arg: f"p{i}" for i, a in enumerate(fn.args.args)}

        class R(ast.NodeTransformer):
            def visit_Name(self, n):
                return ast.copy_location(ast.Name(id=ren.get(n.id, n.id), ctx=n.ctx), n)

        sig = ", ".join([ren[a.arg] for a in fn.args.args] + (["*" + fn.args.vararg.arg] if fn.args.vararg else []) + (["**" + fn.args.kwarg.arg] if fn.args.kwarg else []))
        rows.append((name + ":signature", sig + (" defaults" if fn.args.defaults or fn.args.kw_defaults else "")))
        rows.append((name + ":decorators", "; ".join(ast.unparse(d) for d in fn.decorator_list)))
        for st in fn.body:
            if isinstance(st, ast.Expr) and isinstance(st.value, ast.Constant):
                continue  # docstring
            rows.append((name, ast.unparse(R().visit(st)).replace("\n", " ; ")))
    return rows


def lean_uref(u):
    return {"au": ".au", "bu": ".bu", "null": ".null"}[u]


def lean_act(X, a):
    if a[0] in ("bInUnitsOfA", "aInUnitsOfB"):
        return "." + a[0]
    if a[0] in ("bAdopts", "aAdopts"):
        return f".{a[0]} {lean_uref(a[1])}"
    return f".unknown {X.lstr(a[1])}"


def generate(X):
    import unyt._array_functions as AF

    branches, ret = comp_helper_program(AF)
    rows = handler_rows(AF)
    br = ",\n".join(
        "    ⟨[" + ", ".join(f"⟨{lean_uref(l)}, {lean_uref(r)}, {'true' if eq else 'false'}⟩" for l, r, eq in g) + "], ["
        + ", ".join(lean_act(X, a) for a in acts) + "]⟩"
        for g, acts in branches)
    text = (
        "-- GENERATED by tools/extract.d/c19_handlers.py from /repo (unyt/_array_functions.py) — do not edit\n"
        "import UnytModel.CompHelper\n"
        "namespace Unyt.Generated\nopen Unyt.Testing\n\n"
        "/-- `unyt._array_functions._array_comp_helper`, translated statement by statement from the live\n"
        "    source: the if/elif chain (guards = conjunctions of `Unit.__eq__` / `__ne__` tests on\n"
        "    `au = getattr(a, \"units\", NULL_UNIT)`, `bu = …`, `NULL_UNIT`), the assignment(s) of each\n"
        "    branch, and the order of the returned pair.  Interpreted by `runCompProg`. -/\n"
        "def compHelperProg : CompProg :=\n  ⟨[\n" + br + "\n  ], [" + ", ".join(X.lstr(x) for x in ret) + "]⟩\n\n"
        "/-- the bodies of the `numpy.isclose/allclose/array_equal/array_equiv` handlers, statement by\n"
        "    statement (parameters renamed p0, p1) -/\n"
        "def handlerSource : List (String × String) := [\n"
        + ",\n".join(f"  ({X.lstr(k)}, {X.lstr(v)})" for k, v in rows) + "\n]\n\nend Unyt.Generated\n"
    )
    X.write_if_changed(os.path.join(X.GEN, "C19CompHelper.lean"), text)
    return {"comp_helper": [[list(map(list, g)), [list(a) for a in acts]] for g, acts in branches], "ret": ret, "handlers": [list(r) for r in rows]}
