"""C15 translator plugin `Ratios`: an `ast` pass over unyt/_physical_ratios.py and over the value
cells of unyt/_unit_lookup_table.py (`physical_constants`, `default_unit_symbol_lut`).

Produces SYMBOLIC definitions: expression trees (`Unyt.CExpr`) whose literals are the exact
decimals written in the source (taken from the source text, not from the rounded double);
`np.pi`, `np.sqrt`, `np.log` stay symbolic.  Anything outside that vocabulary makes the
translation fail (the runner reports a broken translation), it is never guessed.

Output: lean/UnytModel/Generated/C15Ratios.lean and the JSON the harness needs
(names, the python-side double of every definition for the correspondence).
"""
import ast
import os
from fractions import Fraction


class Untranslatable(Exception):
    pass


def _num_text(src, node):
    seg = ast.get_source_segment(src, node)
    if seg is None:
        raise Untranslatable(f"no source segment for literal at line {node.lineno}")
    return seg.replace("_", "")


def to_cexpr(src, node, rename):
    """python ast -> nested tuple form ('lit', Fraction) | ('pi',) | ('ref', name) | (op, ...)"""
    if isinstance(node, ast.Constant) and isinstance(node.value, (int, float)) and not isinstance(node.value, bool):
        txt = _num_text(src, node)
        q = Fraction(txt)
        if float(q) != float(node.value):
            raise Untranslatable(f"literal {txt!r} at line {node.lineno} does not re-read as {node.value!r}")
        return ("lit", q)
    if isinstance(node, ast.Name):
        return ("ref", rename.get(node.id, node.id))
    if isinstance(node, ast.Attribute) and isinstance(node.value, ast.Name) and node.value.id in ("np", "numpy", "math"):
        if node.attr == "pi":
            return ("pi",)
        raise Untranslatable(f"attribute {node.value.id}.{node.attr} at line {node.lineno}")
    if isinstance(node, ast.UnaryOp) and isinstance(node.op, ast.USub):
        return ("neg", to_cexpr(src, node.operand, rename))
    if isinstance(node, ast.UnaryOp) and isinstance(node.op, ast.UAdd):
        return to_cexpr(src, node.operand, rename)
    if isinstance(node, ast.BinOp):
        if isinstance(node.op, ast.Pow):
            e = node.right
            sign = 1
            while isinstance(e, ast.UnaryOp) and isinstance(e.op, (ast.USub, ast.UAdd)):
                if isinstance(e.op, ast.USub):
                    sign = -sign
                e = e.operand
            if not (isinstance(e, ast.Constant) and isinstance(e.value, (int, float)) and not isinstance(e.value, bool)):
                raise Untranslatable(f"non-literal exponent at line {node.lineno}")
            q = sign * Fraction(_num_text(src, e))
            return ("pow", to_cexpr(src, node.left, rename), q)
        ops = {ast.Add: "add", ast.Sub: "sub", ast.Mult: "mul", ast.Div: "div"}
        for k, v in ops.items():
            if isinstance(node.op, k):
                return (v, to_cexpr(src, node.left, rename), to_cexpr(src, node.right, rename))
        raise Untranslatable(f"operator {type(node.op).__name__} at line {node.lineno}")
    if isinstance(node, ast.Call) and isinstance(node.func, ast.Attribute) and isinstance(node.func.value, ast.Name) \
            and node.func.value.id in ("np", "numpy", "math") and len(node.args) == 1 and not node.keywords:
        if node.func.attr == "sqrt":
            return ("sqrt", to_cexpr(src, node.args[0], rename))
        if node.func.attr == "log":
            return ("log", to_cexpr(src, node.args[0], rename))
        raise Untranslatable(f"call {node.func.value.id}.{node.func.attr} at line {node.lineno}")
    raise Untranslatable(f"{type(node).__name__} at line {getattr(node, 'lineno', '?')}")


def lean_cexpr(X, e):
    k = e[0]
    if k == "lit":
        return f"(.lit {X.lrat(e[1])})"
    if k == "pi":
        return ".pi"
    if k == "ref":
        return f"(.ref {X.lstr(e[1])})"
    if k == "pow":
        return f"(.pow {lean_cexpr(X, e[1])} {X.lrat(e[2])})"
    if k in ("neg", "sqrt", "log"):
        return f"(.{k} {lean_cexpr(X, e[1])})"
    return f"(.{k} {lean_cexpr(X, e[1])} {lean_cexpr(X, e[2])})"


def wire_cexpr(e):
    """prefix wire form for the driver: tokens separated by spaces"""
    k = e[0]
    if k == "lit":
        return f"L {e[1].numerator}/{e[1].denominator}"
    if k == "pi":
        return "P"
    if k == "ref":
        return f"R {e[1]}"
    if k == "pow":
        return f"^ {e[2].numerator}/{e[2].denominator} {wire_cexpr(e[1])}"
    if k in ("neg", "sqrt", "log"):
        return {"neg": "~", "sqrt": "S", "log": "G"}[k] + " " + wire_cexpr(e[1])
    return {"add": "+", "sub": "-", "mul": "*", "div": "/"}[k] + " " + wire_cexpr(e[1]) + " " + wire_cexpr(e[2])


def parse_ratios(repo):
    path = os.path.join(repo, "unyt", "_physical_ratios.py")
    src = open(path, encoding="utf-8").read()
    tree = ast.parse(src)
    defs = []
    seen = set()
    for st in tree.body:
        if isinstance(st, (ast.Import, ast.ImportFrom)):
            continue
        if isinstance(st, ast.Expr) and isinstance(st.value, ast.Constant) and isinstance(st.value.value, str):
            continue  # docstring
        if isinstance(st, ast.Assign) and len(st.targets) == 1 and isinstance(st.targets[0], ast.Name):
            name = st.targets[0].id
            if name in seen:
                raise Untranslatable(f"_physical_ratios.py: {name} assigned twice (line {st.lineno})")
            seen.add(name)
            e = to_cexpr(src, st.value, {})
            for r in refs(e):
                if r not in seen or r == name:
                    raise Untranslatable(f"_physical_ratios.py: {name} uses {r} before assignment (line {st.lineno})")
            defs.append((name, e))
            continue
        raise Untranslatable(f"_physical_ratios.py: statement {type(st).__name__} at line {st.lineno}")
    return defs


def refs(e):
    if e[0] == "ref":
        return [e[1]]
    out = []
    for x in e[1:]:
        if isinstance(x, tuple):
            out += refs(x)
    return out


def parse_table_cells(repo, ratio_names):
    """value cells of `physical_constants` and scale cells of `default_unit_symbol_lut`"""
    path = os.path.join(repo, "unyt", "_unit_lookup_table.py")
    src = open(path, encoding="utf-8").read()
    tree = ast.parse(src)
    rename = {}
    for st in tree.body:
        if isinstance(st, ast.ImportFrom) and st.module == "unyt._physical_ratios":
            for a in st.names:
                rename[a.asname or a.name] = a.name
    out = {}
    for target in ("physical_constants", "default_unit_symbol_lut"):
        node = None
        for st in tree.body:
            if isinstance(st, ast.Assign) and len(st.targets) == 1 and isinstance(st.targets[0], ast.Name) \
                    and st.targets[0].id == target:
                node = st.value
        if node is None or not (isinstance(node, ast.Call) and len(node.args) == 1 and isinstance(node.args[0], ast.List)):
            raise Untranslatable(f"_unit_lookup_table.py: {target} is not OrderedDict([...])")
        cells = []
        for elt in node.args[0].elts:
            if not (isinstance(elt, ast.Tuple) and len(elt.elts) == 2 and isinstance(elt.elts[0], ast.Constant)
                    and isinstance(elt.elts[0].value, str) and isinstance(elt.elts[1], ast.Tuple)):
                raise Untranslatable(f"_unit_lookup_table.py: {target} row at line {elt.lineno}")
            key = elt.elts[0].value
            e = to_cexpr(src, elt.elts[1].elts[0], rename)
            for r in refs(e):
                if r not in ratio_names:
                    raise Untranslatable(f"_unit_lookup_table.py: {target}[{key!r}] uses unknown name {r}")
            cells.append((key, e))
        out[target] = cells
    return out


def generate(X):
    defs = parse_ratios(X.REPO)
    names = {n for n, _ in defs}
    cells = parse_table_cells(X.REPO, names)

    def block(name, doc, rows):
        return (f"/-- {doc} -/\ndef {name} : Defs := [\n"
                + ",\n".join(f"  ({X.lstr(k)}, {lean_cexpr(X, e)})" for k, e in rows) + "\n]\n\n")

    text = (
        X.header("UnytModel.PhysicalConstants")
        + "namespace Unyt.Generated\n\n"
        + block("ratioDefs", "`unyt/_physical_ratios.py`: every assignment, in source order", defs)
        + block("constCells", "`physical_constants`: the value cell of every row (names refer to `ratioDefs`)",
                cells["physical_constants"])
        + block("unitCells", "`default_unit_symbol_lut`: the scale cell of every row (names refer to `ratioDefs`)",
                cells["default_unit_symbol_lut"])
        + "end Unyt.Generated\n"
    )
    X.write_if_changed(os.path.join(X.GEN, "C15Ratios.lean"), text)
    return {
        "ratios": [n for n, _ in defs],
        "base": [n for n, e in defs if e[0] == "lit"],
        "const_cells": [k for k, _ in cells["physical_constants"]],
        "unit_cells": [k for k, _ in cells["default_unit_symbol_lut"]],
        "wire": {
            "ratio": {n: wire_cexpr(e) for n, e in defs},
            "const": {k: wire_cexpr(e) for k, e in cells["physical_constants"]},
            "unit": {k: wire_cexpr(e) for k, e in cells["default_unit_symbol_lut"]},
        },
    }
