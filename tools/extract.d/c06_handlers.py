"""Translator plugin for C06 (also the base table of C07/C01): regenerates
lean/UnytModel/Generated/Handlers.lean from the live /repo/unyt/_array_functions.py:

* `_UNSUPPORTED_FUNCTIONS`, `_HANDLED_FUNCTIONS` (by canonical name), the dispatcher universe;
* per handler an `ast` pass: parameters, `np.<g>._implementation` mentioned (through helpers too),
  numpy parameters that can never be forwarded;
* per handler × catalogue template a DYNAMIC TRACE (harness/c06_trace.py: `unyt._array_functions.np`
  and `_trapezoid_func` replaced by a recording proxy) of which kernel was invoked and how every
  numpy parameter of the call reached it, and whether the returned numbers are the kernel's.

Tracing uses the fixed data seed 0 so that the generated file is a function of the source only.
"""
import inspect
import os
import sys
import warnings


def generate(X):
    warnings.simplefilter("ignore")
    harness = os.path.join(os.path.dirname(os.path.dirname(os.path.dirname(os.path.abspath(__file__)))), "harness")
    if harness not in sys.path:
        sys.path.insert(0, harness)
    import numpy as np

    np.seterr(all="ignore")
    import npcatalog as C
    import c06_trace as TR
    import unyt._array_functions as AF

    L = X.lstr
    uni = C.universe()

    def fid(f):
        return C.name_of(f) or ("?" + getattr(f, "__module__", "") + "." + getattr(f, "__name__", repr(f)))

    unsupported = sorted(fid(f) for f in AF._UNSUPPORTED_FUNCTIONS)
    handled = {}
    for f, h in AF._HANDLED_FUNCTIONS.items():
        handled[fid(f)] = (f, h)

    # ---------------------------------------------------------------- static (ast) pass
    statics = []
    for name in sorted(handled):
        f, h = handled[name]
        params, never, targets, raises_only = TR.handler_static(h)
        dropped = TR.static_dropped(f, h)
        sf = TR.static_forward(f, h)
        statics.append(dict(implements=name, handler=h.__name__, params=params, raises_only=raises_only,
                            static_calls=targets, static_dropped=dropped, fwd=sf, by_value_seen={}))

    # ---------------------------------------------------------------- dynamic traces
    rows = {}
    order = []
    groups = {}
    gorder = []
    seen = {}
    for t in C.templates("function"):
        name = C.canonical_func(t)
        if name not in handled or hasattr(t, "alias_kind"):  # derived aliasing templates: Generated/C06Alias.lean
            continue
        for sc in t.shapes:
            for dk in t.dtypes:
                for om, dseed in [(o, d) for o in (("unyt", "bare") if t.out_form else ("unyt",)) for d in (0, 1)]:
                    r = TR.trace_case(t, dk, sc, dseed, om)
                    if r is None or not r["entered"] or r["entered"][0] != name:
                        continue
                    for bp, bval in r.get("by_value_vals", []):
                        seen.setdefault((name, bp), set()).add(bval)
                    raised = r["outcome"] != "ok"
                    g = (name, t.variant, r["sig"])
                    if g not in groups:
                        groups[g] = {}
                        gorder.append(g)
                    if raised and not r["calls"]:
                        groups[g].setdefault("raised-before-call", 0)
                        groups[g]["raised-before-call"] += 1
                        continue
                    fk = (tuple(r["calls"]), tuple(r["params"]), tuple(r["by_value"]))
                    e = groups[g].setdefault(fk, {"n": 0, "ok": 0, "post": "none"})
                    e["n"] += 1
                    if not raised:
                        e["ok"] += 1
                        if e["post"] == "none" or r["post"] == "changed":
                            e["post"] = r["post"]
    for g in gorder:
        recs = [(fk, e) for fk, e in groups[g].items() if fk != "raised-before-call"]
        if not recs:
            key = (g[0], g[1], g[2], True, (), (), (), "none")
            rows[key] = groups[g]["raised-before-call"]
            order.append(key)
            continue
        for fk, e in recs:
            key = (g[0], g[1], g[2], e["ok"] == 0, fk[0], fk[1], fk[2], e["post"])
            rows[key] = e["n"]
            order.append(key)

    def lrow(k):
        name, variant, sig, raised, calls, params, byv, post = k
        cs = ", ".join(f"({'true' if via == 'impl' else 'false'}, {L(tg)})" for via, tg in calls)
        ps = ", ".join(f"({L(p)}, .{v})" for p, v in params)
        bv = ", ".join(L(p) for p in byv)
        return (f"  ⟨{L(name)}, {L(variant)}, {L(sig)}, {'true' if raised else 'false'}, [{cs}], [{ps}], [{bv}], .{post}⟩")

    def ll(xs):
        return "[" + ", ".join(L(x) for x in xs) + "]"

    def lstatic(s):
        ps = ", ".join(f"({L(p)}, {L(k)})" for p, k in s["params"])
        f = s["fwd"]
        seen_l = ", ".join(f"({L(p)}, {n})" for p, n in sorted(s["by_value_seen"].items()))
        return (f"⟨{L(s['implements'])}, {L(s['handler'])}, [{ps}], {'true' if s['raises_only'] else 'false'}, "
                f"{ll(s['static_calls'])}, {ll(s['static_dropped'])}, {ll(f['direct'])}, {ll(f['derived'])}, "
                f"{'true' if f['star_pos'] else 'false'}, {'true' if f['star_kw'] else 'false'}, {ll(f['named'])}, {ll(f['crossed'])}, [{seen_l}]⟩")

    for s_ in statics:
        s_["by_value_seen"] = {p: len(v) for (fn, p), v in seen.items() if fn == s_["implements"]}
    by_func = {}
    for k in order:
        by_func.setdefault(k[0], []).append(k)
    groups_txt = []
    names = []
    for i, s_ in enumerate(statics):
        part = by_func.get(s_["implements"], [])
        groups_txt.append(f"def hstatic{i} : Np.HandlerStatic :=\n  {lstatic(s_)}\n"
                          f"def hrows{i} : List Np.Row := [\n" + ",\n".join(lrow(k) for k in part) + "\n]\n")
        names.append(f"(hstatic{i}, hrows{i})")
    text = (
        X.header("UnytModel.NpHandlers")
        + "namespace Unyt.Generated\nopen Unyt.Np\n\n"
        + "/-- the dispatcher universe: every public callable of numpy, numpy.linalg, numpy.fft with `_implementation` -/\n"
        + "def npUniverse : List String := [" + ", ".join(L(k) for k in sorted(uni)) + "]\n\n"
        + "/-- `_UNSUPPORTED_FUNCTIONS` -/\n"
        + "def npUnsupported : List String := [" + ", ".join(L(k) for k in unsupported) + "]\n\n"
        + "/-- keys of `_HANDLED_FUNCTIONS` -/\n"
        + "def npHandled : List String := [" + ", ".join(L(k) for k in sorted(handled)) + "]\n\n"
        + "/-- per handler: the ast pass (incl. the static provenance column) and the dynamic trace rows\n"
        + "    (handler × catalogue template, distinct records over data seeds 0 and 1) -/\n"
        + "\n".join(groups_txt)
        + "\ndef handlerTable : List (Np.HandlerStatic × List Np.Row) := [\n  " + ",\n  ".join(names) + "\n]\n"
        + "\ndef handlerStatics : List Np.HandlerStatic := handlerTable.map (·.1)\n"
        + "\ndef traceRows : List Np.Row := handlerTable.flatMap (·.2)\n"
        + "\nend Unyt.Generated\n"
    )
    X.write_if_changed(os.path.join(X.GEN, "Handlers.lean"), text)
    return {
        "universe": sorted(uni),
        "unsupported": unsupported,
        "handled": sorted(handled),
        "statics": statics,
        "rows": [dict(func=k[0], variant=k[1], sig=k[2], raised=k[3], calls=list(k[4]), params=list(k[5]), by_value=list(k[6]), post=k[7], n=rows[k]) for k in order],
    }
