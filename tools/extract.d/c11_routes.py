"""C11 translator plugin: per persistence route, WHAT travels and how it is rebuilt.

Regenerates `lean/UnytModel/Generated/PersistRoutes.lean` — the table `persistRoutes :
RouteTable` the C11 model (`UnytModel/Persist.lean: restore`) is run and proved with — from
the LIVE code, by single-route probes (harness/c11_lib.py: probe_route): one persist+load of a
purpose-built object per flag, never a history.

  numbers/dtype/class come back?  same Unit object?  unit travels as the display string
  (`Δ°C` unreadable)?  unit data carried or recomputed from the restored table (probe: a unit
  created BEFORE `registry.modify`)?  is the restored dimension object the singleton (`is`), for
  a canonical and for a non-canonical original?  same `lut` dict?  user-added / MODIFIED default /
  REMOVED default symbols in the restored table?  default rows re-declared with ONE field changed
  (value, dimensions, offset -> keepsModifiedDefault; the prefixable flag only -> keepsFlagOnlyDefault;
  tex only -> note `texOnlyKept`)?  identity of the dimension objects of user rows
  and of default rows?  `registry.unit_system`?

Also: the flags under pickle protocols 2..5 must coincide (emitted as `pickleProtocolsAgree`),
protocols 0 and 1 are refused by sympy itself (emitted as `pickleLowProtocolsRefusedBySympy`),
and an `ast` pass records which state `__reduce__` / `Unit.copy` / `UnitRegistry.__deepcopy__`
mention (for the notes; cross-checked against the behavioural answer).

A route that stops persisting something (pickling only the non-default entries, `Unit.copy` no
longer passing base_value/dimensions, …) changes a row of this table; `UnytProofs/C11.lean:
active_routes_classified` (kernel-decided) then no longer holds.
"""
import ast
import os
import pickle
import sys


def _ast_facts(repo):
    out = {}
    src = open(os.path.join(repo, "unyt", "array.py"), encoding="utf-8").read()
    tree = ast.parse(src)
    cls = next(n for n in tree.body if isinstance(n, ast.ClassDef) and n.name == "unyt_array")
    meth = {n.name: n for n in cls.body if isinstance(n, ast.FunctionDef)}
    red = ast.unparse(meth["__reduce__"]) if "__reduce__" in meth else ""
    out["reduce_pickles_str_units"] = "str(self.units)" in red
    out["reduce_pickles_whole_lut"] = "self.units.registry.lut" in red
    st = ast.unparse(meth["__setstate__"]) if "__setstate__" in meth else ""
    out["setstate_calls_correct_old"] = "_correct_old_unit_registry" in st
    out["setstate_add_default_symbols_false"] = "add_default_symbols=False" in st
    src = open(os.path.join(repo, "unyt", "unit_object.py"), encoding="utf-8").read()
    tree = ast.parse(src)
    cls = next(n for n in tree.body if isinstance(n, ast.ClassDef) and n.name == "Unit")
    meth = {n.name: n for n in cls.body if isinstance(n, ast.FunctionDef)}
    cp = ast.unparse(meth["copy"]) if "copy" in meth else ""
    out["unit_copy_deepcopies_dimensions"] = "copy.deepcopy(self.dimensions)" in cp
    out["unit_copy_passes_data"] = "base_value" in cp and "base_offset" in cp and "dimensions" in cp
    out["unit_has_reduce"] = "__reduce__" in meth or "__reduce_ex__" in meth or "__getstate__" in meth
    src = open(os.path.join(repo, "unyt", "unit_registry.py"), encoding="utf-8").read()
    tree = ast.parse(src)
    cls = next(n for n in tree.body if isinstance(n, ast.ClassDef) and n.name == "UnitRegistry")
    meth = {n.name: n for n in cls.body if isinstance(n, ast.FunctionDef)}
    dc = ast.unparse(meth["__deepcopy__"]) if "__deepcopy__" in meth else ""
    out["registry_deepcopy_readds_defaults"] = "add_default_symbols=False" not in dc
    out["registry_deepcopy_passes_unit_system"] = "unit_system" in dc
    return out


def generate(X):
    sys.path.insert(0, os.path.join(os.path.dirname(X.HERE), "harness"))
    import c11_lib as L
    import numpy as np
    from unyt import unyt_quantity

    flags = {}
    notes = {}
    for r in L.ROUTES:
        flags[r], notes[r] = L.probe_route(r)

    # pickle protocols: 2..5 must give the same flags; 0/1 are refused by sympy (not unyt's doing)
    low = {}
    for proto in (0, 1):
        try:
            pickle.dumps(unyt_quantity(1.0, "km"), protocol=proto)
            low[proto] = "ok"
        except Exception as e:  # noqa: BLE001
            low[proto] = type(e).__name__ + ":" + type(e).__module__.split(".")[0] + ":" + str(e)[:60]
    low_refused = all(v.startswith("NotImplementedError") and "SymPy" in v for v in low.values())
    proto_flags = {}
    real_restore = L.restore
    for proto in range(2, pickle.HIGHEST_PROTOCOL + 1):
        def with_proto(route, q, protocol=None, _p=proto):
            return real_restore(route, q, protocol=_p)
        L.restore = with_proto
        try:
            proto_flags[proto] = {r: L.probe_route(r)[0] for r in ("pickleArray", "pickleUnit")}
        finally:
            L.restore = real_restore
    agree = all(proto_flags[p][r] == flags[r] for p in proto_flags for r in ("pickleArray", "pickleUnit"))

    b = lambda x: "true" if x else "false"  # noqa: E731

    def row(r):
        f = flags[r]
        return (
            f"  (.{r}, {{\n      keepsValues := {b(f['keepsValues'])}, keepsDtype := {b(f['keepsDtype'])}, keepsClass := {b(f['keepsClass'])},\n"
            f"      unitSame := {b(f['unitSame'])}, unitByDisplayStr := {b(f['unitByDisplayStr'])}, unitDataCarried := {b(f['unitDataCarried'])},\n"
            f"      unitCanon := ⟨{b(f['unitCanonOnCanon'])}, {b(f['unitCanonOnNon'])}⟩,\n"
            f"      regSame := {b(f['regSame'])}, keepsAdded := {b(f['keepsAdded'])}, keepsModifiedDefault := {b(f['keepsModifiedDefault'])}, keepsFlagOnlyDefault := {b(f['keepsFlagOnlyDefault'])}, keepsRemoved := {b(f['keepsRemoved'])},\n"
            f"      userRowCanon := ⟨{b(f['userRowCanonOnCanon'])}, {b(f['userRowCanonOnNon'])}⟩, dfltRowCanon := ⟨{b(f['dfltRowCanonOnCanon'])}, {b(f['dfltRowCanonOnNon'])}⟩,\n"
            f"      keepsUnitSystem := {b(f['keepsUnitSystem'])} }})"
        )

    text = (
        X.header("UnytModel.PersistCfg")
        + "namespace Unyt.Generated\nopen Unyt.Persist\n\n"
        + "/-- per persistence route: what travels and how it is rebuilt, probed on the live code one\n"
        + "    persist+load at a time (tools/extract.d/c11_routes.py, harness/c11_lib.py: probe_route) -/\n"
        + "def persistRoutes : RouteTable := [\n"
        + ",\n".join(row(r) for r in L.ROUTES)
        + "\n]\n\n"
        + "/-- pickle protocols 2..HIGHEST give the same row for pickleArray / pickleUnit -/\n"
        + f"def pickleProtocolsAgree : Bool := {b(agree)}\n\n"
        + "/-- protocols 0 and 1 are refused by sympy's own `Basic.__reduce_ex__` (NotImplementedError) -/\n"
        + f"def pickleLowProtocolsRefusedBySympy : Bool := {b(low_refused)}\n\n"
        + "end Unyt.Generated\n"
    )
    X.write_if_changed(os.path.join(X.GEN, "PersistRoutes.lean"), text)
    facts = _ast_facts(X.REPO)
    return {"flags": flags, "notes": notes, "low_protocols": low, "protocols_agree": agree,
            "protocols": sorted(proto_flags), "ast": facts}
