"""C20 translator plugin: the two source sites that decide what happens to EXPONENTS between unit
arithmetic and the unit-string reader.

  unyt/unit_object.py  Unit.__pow__   first statement of its try block must be
                                      `p = Rational(str(p)).limit_denominator([bound])`
                                      (the operand is rounded, the result is not)
  unyt/unit_object.py  Unit.__new__   string branch: the parser's result must be handed on as it
                                      is — `unit_expr = parse_unyt_expr(unit_expr)` and no later
                                      re-assignment of `unit_expr` inside that branch
  sympy                Rational.limit_denominator   default bound (10**6)

-> lean/UnytModel/Generated/UnitArithSrc.lean
     powDenominatorBound : Nat        bound of the operand rounding in __pow__
     powOperandShape : Bool           __pow__ has the shape above
     stringBranchKeepsParse : Bool    __new__ has the shape above
The two Booleans are proof obligations (`UnytProofs/C20Arith.lean`: `pow_rounds_operand_only`,
`string_branch_keeps_parse`), so a change of shape is reported by the name of the theorem it breaks.
"""
import ast
import inspect
import os
import textwrap


def _pow_shape(src):
    """(shape ok, explicit bound or None)"""
    fn = ast.parse(textwrap.dedent(src)).body[0]
    tries = [st for st in fn.body if isinstance(st, ast.Try)]
    if not tries:
        return False, None
    st = tries[0].body[0] if tries[0].body else None
    if not (isinstance(st, ast.Assign) and len(st.targets) == 1 and isinstance(st.targets[0], ast.Name) and st.targets[0].id == "p"):
        return False, None
    v = st.value
    # Rational(str(p)).limit_denominator(...)
    if not (isinstance(v, ast.Call) and isinstance(v.func, ast.Attribute) and v.func.attr == "limit_denominator" and not v.keywords):
        return False, None
    inner = v.func.value
    ok = (isinstance(inner, ast.Call) and isinstance(inner.func, ast.Name) and inner.func.id == "Rational" and len(inner.args) == 1
          and isinstance(inner.args[0], ast.Call) and isinstance(inner.args[0].func, ast.Name) and inner.args[0].func.id == "str"
          and len(inner.args[0].args) == 1 and isinstance(inner.args[0].args[0], ast.Name) and inner.args[0].args[0].id == "p")
    if not ok:
        return False, None
    bound = None
    if v.args:
        if len(v.args) == 1 and isinstance(v.args[0], ast.Constant) and isinstance(v.args[0].value, int):
            bound = v.args[0].value
        else:
            return False, None
    # `p` must not be re-assigned afterwards, and the expression must be raised to `p` itself
    for node in ast.walk(fn):
        if isinstance(node, ast.Assign) and node is not st and any(isinstance(t, ast.Name) and t.id == "p" for t in node.targets):
            return False, None
    pw = [n for n in ast.walk(fn) if isinstance(n, ast.BinOp) and isinstance(n.op, ast.Pow) and isinstance(n.left, ast.Attribute) and n.left.attr == "expr"]
    if len(pw) != 1 or not (isinstance(pw[0].right, ast.Name) and pw[0].right.id == "p"):
        return False, None
    return True, bound


def _new_shape(src):
    """the string branch of Unit.__new__ assigns `unit_expr = parse_unyt_expr(unit_expr)` and nothing
    else touches the parsed expression inside that branch"""
    fn = ast.parse(textwrap.dedent(src)).body[0]

    def is_str_test(t):
        return (isinstance(t, ast.Call) and isinstance(t.func, ast.Name) and t.func.id == "isinstance" and len(t.args) == 2
                and isinstance(t.args[0], ast.Name) and t.args[0].id == "unit_expr" and "str" in ast.dump(t.args[1]))

    branch = None
    for node in ast.walk(fn):
        if isinstance(node, ast.If) and is_str_test(node.test) and "parse_unyt_expr" in ast.dump(node):
            branch = node
            break
    if branch is None:
        return False
    body = branch.body
    # position of the parse statement; everything before it may only decode bytes / consult the cache
    idx = [i for i, st in enumerate(body) if "parse_unyt_expr" in ast.dump(st)]
    if len(idx) != 1 or idx[0] != len(body) - 1:
        return False
    st = body[idx[0]]
    if not (isinstance(st, ast.Assign) and len(st.targets) == 1 and isinstance(st.targets[0], ast.Name) and st.targets[0].id == "unit_expr"):
        return False
    v = st.value
    if not (isinstance(v, ast.Call) and isinstance(v.func, ast.Name) and v.func.id == "parse_unyt_expr" and len(v.args) == 1
            and not v.keywords and isinstance(v.args[0], ast.Name) and v.args[0].id == "unit_expr"):
        return False
    # after the if/elif chain `unit_expr` is never re-assigned (it is stored as obj.expr)
    seen_branch = False
    for top in fn.body:
        if any(n is branch for n in ast.walk(top)):
            seen_branch = True
            continue
        if seen_branch:
            for n in ast.walk(top):
                if isinstance(n, (ast.Assign, ast.AugAssign)):
                    tg = n.targets if isinstance(n, ast.Assign) else [n.target]
                    if any(isinstance(t, ast.Name) and t.id == "unit_expr" for t in tg):
                        return False
    # and obj.expr is that very variable
    stores = [n for n in ast.walk(fn) if isinstance(n, ast.Assign) and any(isinstance(t, ast.Attribute) and t.attr == "expr" for t in n.targets)]
    if len(stores) != 1 or not (isinstance(stores[0].value, ast.Name) and stores[0].value.id == "unit_expr"):
        return False
    return True


def generate(X):
    import sympy
    from unyt.unit_object import Unit

    pow_ok, bound = _pow_shape(inspect.getsource(Unit.__pow__))
    if bound is None:
        bound = inspect.signature(sympy.Rational.limit_denominator).parameters["max_denominator"].default
    bound = int(bound)
    if bound < 1:
        raise ValueError("limit_denominator bound < 1")
    new_ok = _new_shape(inspect.getsource(Unit.__new__))
    # parse_unyt_expr must return what sympy's parser returned
    from unyt import _parsing

    psrc = ast.parse(inspect.getsource(_parsing.parse_unyt_expr)).body[0]
    rets = [n for n in ast.walk(psrc) if isinstance(n, ast.Return)]
    parse_ok = len(rets) == 1 and isinstance(rets[0].value, ast.Name)
    if parse_ok:
        name = rets[0].value.id
        assigns = [n for n in ast.walk(psrc) if isinstance(n, ast.Assign) and any(isinstance(t, ast.Name) and t.id == name for t in n.targets)]
        assigns.sort(key=lambda n: n.lineno)
        # the last assignment before the return is the call of sympy's parse_expr (the earlier ones rewrite the TEXT)
        parse_ok = (bool(assigns) and isinstance(assigns[-1].value, ast.Call) and getattr(assigns[-1].value.func, "id", "") == "parse_expr"
                    and all(isinstance(a.value, ast.Call) and isinstance(a.value.func, ast.Attribute) and a.value.func.attr == "replace"
                            or isinstance(a.value, ast.Constant) for a in assigns[:-1])
                    and assigns[-1].lineno < rets[0].lineno)
    b = lambda x: "true" if x else "false"  # noqa: E731
    text = (
        X.header()
        + "namespace Unyt.Generated\n\n"
        + "/-- bound of `Rational(str(p)).limit_denominator()` in `Unit.__pow__` -/\n"
        + f"def powDenominatorBound : Nat := {bound}\n\n"
        + "/-- `Unit.__pow__` rounds its operand with exactly that statement and raises the expression to the rounded operand -/\n"
        + f"def powOperandShape : Bool := {b(pow_ok)}\n\n"
        + "/-- the string branch of `Unit.__new__` stores what `parse_unyt_expr` returned, and `parse_unyt_expr` returns what `parse_expr` returned -/\n"
        + f"def stringBranchKeepsParse : Bool := {b(new_ok and parse_ok)}\n\n"
        + "end Unyt.Generated\n"
    )
    X.write_if_changed(os.path.join(X.GEN, "UnitArithSrc.lean"), text)
    return {"bound": bound, "pow_shape": pow_ok, "new_shape": new_ok, "parse_returns_parse_expr": parse_ok}
