"""C01 translator plugin: which operands each NumPy array-function handler of
unyt/_array_functions.py checks for unit consistency — by an `ast` pass over the source.

For every `@implements(np.X)` function the pass collects the calls to
  _validate_units_consistency(objs)            kind "validate"   (all listed operands)
  _validate_units_consistency_v2(ref, *args)   kind "validate_v2" (ref's owner + args)
  _array_comp_helper(a, b)                     kind "comp_helper"
  _sanitize_range(range, units=[...])          kind "sanitize_range" (range against the operands)
  _validate_side_values(ref, kwargs, names, …) kind "validate_side"  (ref + the named keyword operands)
following calls into module-level helper functions (clip -> clip_impl, linspace -> _linspace,
histogram -> _histogram, diff -> diff_helper ...) with their argument binding.  Names are those
of the handler's own parameters, mapped by position onto the parameter names of the NumPy
function's public signature where both exist (so `arrs` of `concatenate` becomes `arrays`).

Writes lean/UnytModel/Generated/C01Handlers.lean:
  handlerChecks : List (String × List (String × List String))   -- function ↦ [(kind, operands)]
  handledFunctions / unsupportedFunctions : List String
"""
import ast
import inspect
import os

import numpy as np

CHECKS = {
    "_validate_units_consistency": "validate",
    "_validate_units_consistency_v2": "validate_v2",
    "_array_comp_helper": "comp_helper",
    "_sanitize_range": "sanitize_range",
}


def qualname(f):
    mod = getattr(f, "__module__", "") or ""
    name = getattr(f, "__name__", repr(f))
    if mod.startswith("numpy.linalg"):
        return "linalg." + name
    if mod.startswith("numpy.fft"):
        return "fft." + name
    return name


def np_attr(node):
    """np.a.b -> 'a.b' ; anything else -> None"""
    parts = []
    while isinstance(node, ast.Attribute):
        parts.append(node.attr)
        node = node.value
    if isinstance(node, ast.Name) and node.id == "np":
        return ".".join(reversed(parts))
    if isinstance(node, ast.Name):
        return "@" + node.id  # a module-level alias such as _trapezoid_func
    return None


def names_in(node):
    """operand names mentioned by an argument expression of a check call"""
    if isinstance(node, ast.Name):
        return [node.id]
    if isinstance(node, (ast.Tuple, ast.List)):
        out = []
        for e in node.elts:
            out += names_in(e)
        return out
    if isinstance(node, ast.Starred):
        return names_in(node.value)
    if isinstance(node, ast.Attribute):  # a.units
        return names_in(node.value)
    if isinstance(node, ast.Subscript):  # choicelist[0]
        return names_in(node.value)
    if isinstance(node, ast.BinOp):  # 1 * ref_units
        return names_in(node.left) + names_in(node.right)
    if isinstance(node, ast.Call):  # getattr(a, "units", None)
        out = []
        for a in node.args:
            out += names_in(a)
        return out
    if isinstance(node, ast.ListComp):
        out = []
        for g in node.generators:
            out += names_in(g.iter)
        return out
    return []


class Pass:
    def __init__(self, tree):
        self.funcs = {}
        self.tree = tree
        self._collect(tree.body)

    def _collect(self, body):
        for n in body:
            if isinstance(n, ast.FunctionDef):
                self.funcs.setdefault(n.name, []).append(n)
            elif isinstance(n, ast.If):
                self._collect(n.body)
                self._collect(n.orelse)

    def params(self, fn):
        a = fn.args
        return [x.arg for x in a.posonlyargs + a.args], [x.arg for x in a.kwonlyargs], (a.vararg.arg if a.vararg else None)

    def local_aliases(self, fn):
        """`ref_units = choicelist[0].units`-style single assignments: local -> names it is built from;
        `x, y, *args = args` unpackings keep their own names"""
        al = {}
        for n in ast.walk(fn):
            if isinstance(n, ast.Assign) and len(n.targets) == 1 and isinstance(n.targets[0], ast.Name):
                al[n.targets[0].id] = names_in(n.value)
        return al

    def checks_of(self, fn, binding=None, depth=0):
        """[(kind, [names])] with names expressed in the caller's vocabulary through `binding`"""
        pos, kwo, _var = self.params(fn)
        own = set(pos) | set(kwo)
        al = self.local_aliases(fn)

        def resolve(name, seen=()):
            if name in own or name not in al or name in seen:
                return [name]
            out = []
            for m in al[name]:
                out += resolve(m, seen + (name,))
            return out or [name]

        def outward(name):
            if binding is None:
                return [name]
            return binding.get(name, [])

        out = []
        # placement of a check inside the function it is written in: before the first call into
        # NumPy (`…._implementation(…)` / `np.<f>(…)` with the stripped operands), and as a statement
        # of the function body itself (not under an `if`/`for`/`try`)
        kernel_calls = [c for c in ast.walk(fn) if isinstance(c, ast.Call)
                        and (ast.unparse(c.func).endswith("._implementation")
                             or (ast.unparse(c.func).startswith("np.") and ast.unparse(c.func)[3:] in ("interp", "isin")))]
        top_calls = set()
        for st in fn.body:
            if isinstance(st, (ast.Expr, ast.Assign, ast.Return, ast.AugAssign, ast.AnnAssign)):
                for c in ast.walk(st):
                    if isinstance(c, ast.Call):
                        top_calls.add(id(c))

        def placed(call, names=None):
            # "before": ahead of the first call into NumPy that is handed one of the checked operands
            # (an early exit that does not touch them, as in `where(condition)`, does not count)
            lines = []
            for k in kernel_calls:
                used = {x.id for a in list(k.args) + [kw.value for kw in k.keywords] for x in ast.walk(a) if isinstance(x, ast.Name)}
                if names is None or used & set(names):
                    lines.append(k.lineno)
            return (not lines or call.lineno < min(lines), id(call) in top_calls)

        for n in ast.walk(fn):
            if not isinstance(n, ast.Call) or not isinstance(n.func, ast.Name):
                continue
            callee = n.func.id
            if callee == "_validate_side_values" and len(n.args) >= 3 and isinstance(n.args[2], (ast.Tuple, ast.List)):
                # _validate_side_values(ref, kwargs, ("prepend", "append"), positional): the reference
                # operand and the named keyword operands (checked with _validate_units_consistency_v2)
                ns = names_in(n.args[0]) + [e.value for e in n.args[2].elts if isinstance(e, ast.Constant) and isinstance(e.value, str)]
                res = []
                for m in ns:
                    for r in (resolve(m) if m in own or m in al else [m]):
                        for o in (outward(r) if (r in own or binding is None) else [r]):
                            if o not in res:
                                res.append(o)
                out.append(("validate_side", res) + placed(n, ns))
            elif callee in CHECKS:
                ns = []
                for a in n.args:
                    ns += names_in(a)
                for k in n.keywords:
                    ns += names_in(k.value)
                res = []
                for m in ns:
                    for r in resolve(m):
                        for o in outward(r):
                            if o not in res:
                                res.append(o)
                out.append((CHECKS[callee], res) + placed(n, ns))
            elif callee in self.funcs and depth < 3 and callee != fn.name:
                for cand in self.funcs[callee]:
                    cpos, ckwo, _ = self.params(cand)
                    b = {}
                    for i, a in enumerate(n.args):
                        if i < len(cpos):
                            b[cpos[i]] = [o for m in names_in(a) for r in resolve(m) for o in outward(r)]
                    for k in n.keywords:
                        if k.arg:
                            b[k.arg] = [o for m in names_in(k.value) for r in resolve(m) for o in outward(r)]
                    here = placed(n)
                    for c in self.checks_of(cand, b, depth + 1):
                        # a check inside a helper counts as placed where both the helper call and the
                        # check inside the helper are
                        c = (c[0], c[1], c[2] and here[0], c[3] and here[1])
                        if c not in out:
                            out.append(c)
        return out


def generate(X):
    import unyt._array_functions as af

    src = open(os.path.join(X.REPO, "unyt", "_array_functions.py"), encoding="utf-8").read()
    tree = ast.parse(src)
    P = Pass(tree)
    aliases = {"_trapezoid_func": qualname(af._trapezoid_func)}
    table = {}
    sigs = {}

    def visit(body):
        for n in body:
            if isinstance(n, ast.If):
                visit(n.body)
                visit(n.orelse)
            if not isinstance(n, ast.FunctionDef):
                continue
            for d in n.decorator_list:
                if isinstance(d, ast.Call) and isinstance(d.func, ast.Name) and d.func.id == "implements" and d.args:
                    key = np_attr(d.args[0])
                    if key is None:
                        continue
                    if key.startswith("@"):
                        key = aliases.get(key[1:], key)
                    # live numpy function, to translate parameter names by position
                    obj = np
                    try:
                        for part in key.split("."):
                            obj = getattr(obj, part)
                    except AttributeError:
                        continue  # a branch for another NumPy version
                    live = af._HANDLED_FUNCTIONS.get(obj)
                    if live is None or live.__code__.co_firstlineno not in range(n.lineno, n.end_lineno + 1):
                        # the definition in the other arm of a version switch
                        if live is None or live.__name__ != n.name:
                            continue
                        if abs(live.__code__.co_firstlineno - n.lineno) > 3:
                            continue
                    pos, kwo, _ = P.params(n)
                    try:
                        npos = [p.name for p in inspect.signature(obj).parameters.values()
                                if p.kind in (p.POSITIONAL_ONLY, p.POSITIONAL_OR_KEYWORD)]
                    except (TypeError, ValueError):
                        npos = []
                    ren = {p: npos[i] for i, p in enumerate(pos) if i < len(npos)}
                    checks = []
                    for kind, ns, before, top in P.checks_of(n):
                        checks.append([kind, [ren.get(m, m) for m in ns], bool(before), bool(top)])
                    table[key] = checks
                    sigs[key] = {"handler": n.name, "params": pos, "kwonly": kwo, "numpy_params": npos}

    visit(tree.body)
    handled = sorted(qualname(f) for f in af._HANDLED_FUNCTIONS)
    missing = [h for h in handled if h not in table]
    if missing:
        raise ValueError(f"handlers not found by the ast pass: {missing}")
    unsupported = sorted(qualname(f) for f in af._UNSUPPORTED_FUNCTIONS)
    L = X.lstr
    rows = []
    for k in sorted(table):
        cs = ", ".join(f"({L(kind)}, [" + ", ".join(L(m) for m in ns) + f"], {'true' if b else 'false'}, {'true' if t else 'false'})"
                       for kind, ns, b, t in table[k])
        rows.append(f"  ({L(k)}, [{cs}])")
    text = (
        X.header()
        + "namespace Unyt.Generated\n\n"
        + "/-- per `@implements` handler of unyt/_array_functions.py: the unit-consistency checks it performs\n"
        + "    as (kind, operands covered, placed before the first call into NumPy, an unconditional statement of\n"
        + "    the body) (ast pass; helper calls followed) -/\n"
        + "def handlerChecks : List (String × List (String × List String × Bool × Bool)) := [\n"
        + ",\n".join(rows)
        + "\n]\n\n"
        + "def handledFunctions : List String := [" + ", ".join(L(h) for h in handled) + "]\n\n"
        + "def unsupportedFunctions : List String := [" + ", ".join(L(h) for h in unsupported) + "]\n\n"
        + "end Unyt.Generated\n"
    )
    X.write_if_changed(os.path.join(X.GEN, "C01Handlers.lean"), text)
    return {"checks": table, "handled": handled, "unsupported": unsupported, "signatures": sigs}
