"""C16 translator plugin: `_coerce_iterable_units` (unyt/array.py) → a program for the Lean interpreter.

`ast` pass over the LIVE source of the function (whatever $UNYT_REPO holds):

* which element of the input gives `ff` (`getattr(input_object[k], "units", …)`),
* whether the test guarding the mixed branch looks at every element,
* whether the mixed branch labels its result with `ff`,
* what the "no unit differs" branch stores,
* the BODY of the per-element loop `for datum in input_object:` as a `CoProg.Stmt` tree
  (if / try-except-raise / append / continue / raise; local names inlined), with the appended
  expression classified as `inUnits` (`datum.in_units(ff[.units])`, `datum.to(ff…)`), `rescale`
  (reading times an expression of `base_value`s), `raw` (the reading itself) or `unknown`, and the
  tests as `kindIs` (`datum.dtype.kind == "f"`), `sameDim`, `unitEq`, Boolean combinations, or
  `unknown`.

Writes lean/UnytModel/Generated/C16Coerce.lean (`Unyt.Generated.c16CoerceProg`); the interpreter is
`UnytModel/C16CoerceProg.lean:coerceProg`, the obligation `UnytProofs/C16.lean:C16_coerce_prog`.
Anything the pass does not recognise becomes `unknown`, which the obligation rejects.
"""
import ast
import inspect
import os
import textwrap


RAW_ATTRS = {"d", "v", "value", "ndview"}


class Tr:
    def __init__(self, fn_node):
        self.fn = fn_node
        self.param = fn_node.args.args[0].arg
        self.ff = None
        self.ff_index = None
        self.datum = None
        self.env = {}
        self.notes = []

    # ---- helpers -------------------------------------------------------------------------
    def res(self, node, depth=0):
        while isinstance(node, ast.Name) and node.id in self.env and depth < 8:
            node = self.env[node.id]
            depth += 1
        return node

    def is_datum(self, node):
        node = self.res(node)
        return isinstance(node, ast.Name) and node.id == self.datum

    def is_ff(self, node):
        node = self.res(node)
        if isinstance(node, ast.Name) and node.id == self.ff:
            return True
        return isinstance(node, ast.Attribute) and node.attr == "units" and isinstance(node.value, ast.Name) and node.value.id == self.ff

    def is_datum_units(self, node):
        node = self.res(node)
        return isinstance(node, ast.Attribute) and node.attr == "units" and self.is_datum(node.value)

    def is_raw(self, node):
        node = self.res(node)
        if self.is_datum(node):
            return True
        return isinstance(node, ast.Attribute) and node.attr in RAW_ATTRS and self.is_datum(node.value)

    def mentions(self, node, attr):
        node = self.res(node)
        for n in ast.walk(node):
            if isinstance(n, ast.Attribute) and n.attr == attr:
                return True
            if isinstance(n, ast.Name) and n.id in self.env and n is not node:
                if self.mentions(self.env[n.id], attr):
                    return True
        return False

    # ---- expressions ---------------------------------------------------------------------
    def val(self, node):
        node = self.res(node)
        if isinstance(node, ast.Call) and isinstance(node.func, ast.Attribute) and node.func.attr in ("in_units", "to") \
                and self.is_datum(node.func.value) and len(node.args) == 1 and not node.keywords and self.is_ff(node.args[0]):
            return "Val.inUnits"
        if self.is_raw(node):
            return "Val.raw"
        if isinstance(node, ast.BinOp) and isinstance(node.op, ast.Mult):
            for a, b in ((node.left, node.right), (node.right, node.left)):
                if self.is_raw(a) and self.mentions(b, "base_value") and not self.mentions(b, "base_offset") \
                        and not any(isinstance(n, ast.Call) for n in ast.walk(self.res(b))):
                    return "Val.rescale"
        self.notes.append("unrecognised value: " + ast.unparse(node))
        return "Val.unknown"

    def cond(self, node):
        node = self.res(node)
        if isinstance(node, ast.Constant) and isinstance(node.value, bool):
            return f"(Cond.const {'true' if node.value else 'false'})"
        if isinstance(node, ast.UnaryOp) and isinstance(node.op, ast.Not):
            return f"(Cond.not {self.cond(node.operand)})"
        if isinstance(node, ast.BoolOp):
            ctor = "Cond.and" if isinstance(node.op, ast.And) else "Cond.or"
            out = self.cond(node.values[-1])
            for v in reversed(node.values[:-1]):
                out = f"({ctor} {self.cond(v)} {out})"
            return out
        if isinstance(node, ast.Call) and isinstance(node.func, ast.Attribute) and node.func.attr == "same_dimensions_as" and len(node.args) == 1:
            a, b = node.func.value, node.args[0]
            if (self.is_datum_units(a) and self.is_ff(b)) or (self.is_ff(a) and self.is_datum_units(b)):
                return "Cond.sameDim"
        if isinstance(node, ast.Compare) and len(node.ops) == 1 and isinstance(node.ops[0], (ast.Eq, ast.NotEq)):
            a, b = self.res(node.left), self.res(node.comparators[0])
            neg = isinstance(node.ops[0], ast.NotEq)
            out = None
            for x, y in ((a, b), (b, a)):
                if isinstance(x, ast.Attribute) and x.attr == "kind" and isinstance(x.value, ast.Attribute) and x.value.attr == "dtype" \
                        and self.is_datum(x.value.value) and isinstance(y, ast.Constant) and isinstance(y.value, str):
                    k = y.value if y.value in ("f", "i", "u", "c", "b") else "other"
                    out = f"(Cond.kindIs DKind.{k})"
                elif self.is_datum_units(x) and self.is_ff(y):
                    out = "Cond.unitEq"
                elif isinstance(x, ast.Attribute) and x.attr == "dimensions" and self.is_datum_units(x.value) \
                        and isinstance(y, ast.Attribute) and y.attr == "dimensions" and self.is_ff(y.value):
                    out = "Cond.sameDim"
                if out:
                    break
            if out:
                return f"(Cond.not {out})" if neg else out
        self.notes.append("unrecognised test: " + ast.unparse(node))
        return "Cond.unknown"

    # ---- statements ----------------------------------------------------------------------
    def block(self, stmts, guarded, sink):
        out = None
        parts = [self.stmt(s, guarded, sink) for s in stmts]
        parts = [p for p in parts if p != "Stmt.skip"] or ["Stmt.skip"]
        out = parts[-1]
        for p in reversed(parts[:-1]):
            out = f"(Stmt.seq {p} {out})"
        return out

    def is_coercion_raise(self, s):
        if not isinstance(s, ast.Raise) or s.exc is None:
            return False
        e = s.exc.func if isinstance(s.exc, ast.Call) else s.exc
        return isinstance(e, ast.Name) and e.id == "IterableUnitCoercionError"

    def stmt(self, s, guarded, sink):
        if isinstance(s, ast.Pass):
            return "Stmt.skip"
        if isinstance(s, ast.Expr) and isinstance(s.value, ast.Constant):
            return "Stmt.skip"
        if isinstance(s, ast.Assign) and len(s.targets) == 1 and isinstance(s.targets[0], ast.Name) \
                and s.targets[0].id not in (self.datum, self.ff, sink, self.param) \
                and not any(isinstance(n, ast.Call) for n in ast.walk(s.value)):
            self.env[s.targets[0].id] = s.value       # call-free local: inlined where it is used
            return "Stmt.skip"
        if isinstance(s, ast.Expr) and isinstance(s.value, ast.Call) and isinstance(s.value.func, ast.Attribute) \
                and s.value.func.attr == "append" and isinstance(s.value.func.value, ast.Name) and s.value.func.value.id == sink \
                and len(s.value.args) == 1:
            return f"(Stmt.append {self.val(s.value.args[0])} {'true' if guarded else 'false'})"
        if isinstance(s, ast.If):
            return f"(Stmt.ite {self.cond(s.test)} {self.block(s.body, guarded, sink)} {self.block(s.orelse, guarded, sink)})"
        if isinstance(s, ast.Continue):
            return "Stmt.continue_"
        if self.is_coercion_raise(s):
            return "Stmt.raiseCoercion"
        if isinstance(s, ast.Try) and not s.orelse and not s.finalbody and len(s.handlers) == 1:
            h = s.handlers[0]
            if isinstance(h.type, ast.Name) and h.type.id == "UnitConversionError" and len(h.body) == 1 and self.is_coercion_raise(h.body[0]):
                return self.block(s.body, True, sink)
        self.notes.append("unrecognised statement: " + ast.unparse(s).split("\n")[0])
        return "Stmt.unknown"

    # ---- whole function ------------------------------------------------------------------
    def run(self):
        for n in ast.walk(self.fn):
            if isinstance(n, ast.Assign) and len(n.targets) == 1 and isinstance(n.targets[0], ast.Name) and isinstance(n.value, ast.Call) \
                    and isinstance(n.value.func, ast.Name) and n.value.func.id == "getattr" and len(n.value.args) >= 2 \
                    and isinstance(n.value.args[0], ast.Subscript) and isinstance(n.value.args[0].value, ast.Name) \
                    and n.value.args[0].value.id == self.param and isinstance(n.value.args[1], ast.Constant) and n.value.args[1].value == "units":
                self.ff = n.targets[0].id
                ix = n.value.args[0].slice
                self.ff_index = ix.value if isinstance(ix, ast.Constant) else None
                break
        loop, parent = None, None
        for n in ast.walk(self.fn):
            for fld in ("body", "orelse"):
                blk = getattr(n, fld, None)
                if isinstance(blk, list):
                    for s in blk:
                        if isinstance(s, ast.For) and isinstance(s.iter, ast.Name) and s.iter.id == self.param and isinstance(s.target, ast.Name):
                            loop, parent = s, (n, blk)
        if loop is None or self.ff is None:
            self.notes.append("loop or ff assignment not found")
            return {"ffFromFirst": False, "mixedTestAll": False, "labelIsFf": False, "elseVal": "Val.unknown", "body": "Stmt.unknown"}
        self.datum = loop.target.id
        owner, blk = parent
        sink = None
        for s in blk[: blk.index(loop)]:
            if isinstance(s, ast.Assign) and len(s.targets) == 1 and isinstance(s.targets[0], ast.Name) and isinstance(s.value, ast.List) and not s.value.elts:
                sink = s.targets[0].id
        if loop.orelse:
            self.notes.append("for-else present")
        body = self.block(loop.body, False, sink) if sink and not loop.orelse else "Stmt.unknown"

        def builds(stmts, first_arg_ok):
            for s in stmts:
                for c in ast.walk(s):
                    if isinstance(c, ast.Call) and isinstance(c.func, ast.Name) and c.func.id == "unyt_array" and len(c.args) >= 2 \
                            and isinstance(c.args[1], ast.Name) and c.args[1].id == self.ff:
                        a = c.args[0]
                        if isinstance(a, ast.Call) and isinstance(a.func, ast.Attribute) and a.func.attr in ("array", "asarray") \
                                and len(a.args) == 1 and not a.keywords and isinstance(a.args[0], ast.Name) and a.args[0].id == first_arg_ok:
                            return True
            return False

        # the test guarding the mixed branch: any(ff != getattr(_, "units", …) for _ in input_object)
        mixed_all = False
        if isinstance(owner, ast.If) and blk is owner.body:
            t = owner.test
            if isinstance(t, ast.Call) and isinstance(t.func, ast.Name) and t.func.id == "any" and len(t.args) == 1 and not t.keywords \
                    and isinstance(t.args[0], ast.GeneratorExp) and len(t.args[0].generators) == 1:
                g = t.args[0].generators[0]
                e = t.args[0].elt
                if isinstance(g.iter, ast.Name) and g.iter.id == self.param and not g.ifs and isinstance(g.target, ast.Name) \
                        and isinstance(e, ast.Compare) and len(e.ops) == 1 and isinstance(e.ops[0], ast.NotEq):
                    def elem_units(x):
                        return (isinstance(x, ast.Call) and isinstance(x.func, ast.Name) and x.func.id == "getattr" and len(x.args) >= 2
                                and isinstance(x.args[0], ast.Name) and x.args[0].id == g.target.id
                                and isinstance(x.args[1], ast.Constant) and x.args[1].value == "units") or \
                               (isinstance(x, ast.Attribute) and x.attr == "units" and isinstance(x.value, ast.Name) and x.value.id == g.target.id)
                    a, b = e.left, e.comparators[0]
                    mixed_all = (self.is_ff(a) and elem_units(b)) or (self.is_ff(b) and elem_units(a))
        if not mixed_all:
            self.notes.append("mixed-units test not recognised")
        label = builds(blk[blk.index(loop) + 1:], sink)
        else_val = "Val.unknown"
        if isinstance(owner, ast.If) and blk is owner.body and builds(owner.orelse, self.param):
            else_val = "Val.raw"
        else:
            self.notes.append("uniform branch not recognised")
        return {"ffFromFirst": self.ff_index == 0, "mixedTestAll": bool(mixed_all), "labelIsFf": bool(label), "elseVal": else_val, "body": body}


def translate(src):
    tree = ast.parse(textwrap.dedent(src))
    fn = next(n for n in ast.walk(tree) if isinstance(n, ast.FunctionDef))
    tr = Tr(fn)
    prog = tr.run()
    prog["notes"] = tr.notes
    return prog


def generate(X):
    import unyt.array as ua

    prog = translate(inspect.getsource(ua._coerce_iterable_units))
    b = lambda v: "true" if v else "false"  # noqa: E731
    text = (
        X.header("UnytModel.C16CoerceProg")
        + "namespace Unyt.Generated\nopen Unyt.CoProg\n\n"
        + "/-- `unyt/array.py:_coerce_iterable_units` via ast: ff index, result label, uniform branch, loop body -/\n"
        + f"def c16CoerceProg : Prog :=\n  ⟨{b(prog['ffFromFirst'])}, {b(prog['mixedTestAll'])}, {b(prog['labelIsFf'])}, {prog['elseVal']},\n   {prog['body']}⟩\n\n"
        + "end Unyt.Generated\n"
    )
    X.write_if_changed(os.path.join(X.GEN, "C16Coerce.lean"), text)
    return prog
