"""C13 translator plugin: which mutable containers does each way of making a registry SHARE with the
registry it was made from, and what does it copy?

Regenerates `lean/UnytModel/Generated/RegistryRoutes.lean` from the LIVE code on every run:

* `registryRoutes : List (String × RouteShape)` — one row per creation route (copy.copy, copy.deepcopy,
  JSON, pickling of a registry / unit / array / quantity, `Unit.copy`, deep copies of units and arrays,
  and the *sibling* routes: the second of two objects restored from ONE pickle / ONE deepcopy / the same
  JSON text, measured against the first).  Every field is measured on live objects: sharing with `is`
  on `lut`, `_unit_object_cache`, `_derived_symbols`; contents by looking into the new containers
  (a written-back prefixed row, a removed default symbol, a cached string, the id memo, the unit
  system, the class of a copy of the default registry).
* `initShape` — what `UnitRegistry.__init__` does with `lut=`: keeps the caller's dict by reference,
  replaces an empty dict by a new one, writes the default symbols into the caller's dict, never hands
  out the module-level `default_unit_symbol_lut` itself.
* `worldCfg` — whether a unit built with explicit data (the result of `u * v`) is put into the string
  cache of a registry, and whose registry the result of a mixed-registry operation carries.
* `defaultRefuses` — `default_unit_registry.modify/remove` raise `TypeError` and change nothing
  (probed on a deep copy's class AND on the live default registry, whose table is compared before/after).
* `routeUnitsRebound` — after a route that copies the string cache, every cached `Unit` points at the
  NEW registry.

The sharing structure is a fact about object identity in CPython, which no theorem can derive from the
source text: it is measured here, pinned by kernel-decided obligations (`UnytProofs/C13.lean`), and
re-measured on random interleavings by the correspondence run (`harness/c13.py`).
"""
import copy
import os
import pickle


def _prepared(unyt):
    """a registry with every kind of residue: an added prefixable symbol, a modified default symbol, a
    removed default symbol, a written-back prefixed row, cached strings, a filled id memo, unit system cgs"""
    from unyt import Unit
    from unyt.unit_registry import UnitRegistry
    import unyt.dimensions as D

    r = UnitRegistry(unit_system="cgs")
    r.add("vfoo", 2.0, D.length, prefixable=True)
    r.modify("pc", 7.0)
    r.remove("smoot") if "smoot" in r.lut else r.remove("furlong")
    Unit("kvfoo", registry=r)
    Unit("vfoo*s", registry=r)
    r.unit_system_id
    return r


def _removed_default(r):
    return "smoot" if "smoot" not in r.lut else "furlong"


def _shape(unyt, src, new, removed):
    from unyt.unit_registry import _NonModifiableUnitRegistry  # noqa: F401

    lut_same = new.lut is src.lut
    if lut_same:
        lut = "same"
    else:
        lut = "copy" if "kvfoo" in new.lut else "copyNoDerived"
    add_missing = (not lut_same) and (removed in new.lut)
    nc, sc = new._unit_object_cache, src._unit_object_cache
    # `copy`: the source's cached strings travelled; `empty`: a new dict (possibly already holding the
    # restored object's own unit string, put there by `Unit(unit, registry=registry)` in `__setstate__`)
    cache = "same" if nc is sc else ("copy" if ("kvfoo" in nc or "vfoo*s" in nc) else "empty")
    nd, sd = getattr(new, "_derived_symbols", None), getattr(src, "_derived_symbols", None)
    derived = "same" if (nd is sd and nd is not None) else ("empty" if not nd else "copy")
    keeps_memo = new._unit_system_id is not None
    keeps_usys = getattr(new.unit_system, "name", None) == "cgs"
    rebound = all(u.registry is new for u in nc.values()) if cache == "copy" else True
    rows_same = (not lut_same) and all(new.lut.get(k) == v for k, v in src.lut.items()
                                       if k != "kvfoo") and new.lut.get("vfoo") == src.lut["vfoo"]
    return dict(lut=lut, addMissingDefaults=add_missing, cache=cache, derived=derived, keepsMemo=keeps_memo,
                keepsUsys=keeps_usys, rebound=rebound, rows_carried=bool(lut_same or rows_same))


def _routes(unyt):
    from unyt import Unit, unyt_array, unyt_quantity
    from unyt.unit_registry import UnitRegistry

    def u(r):
        return Unit("vfoo", registry=r)

    def arr(r):
        return unyt_array([1.0, 2.0], "vfoo", registry=r)

    def qty(r):
        return unyt_quantity(1.0, "vfoo", registry=r)

    single = {
        "copy_registry": lambda r: copy.copy(r),
        "deepcopy_registry": lambda r: copy.deepcopy(r),
        "json": lambda r: UnitRegistry.from_json(r.to_json()),
        "pickle_registry": lambda r: pickle.loads(pickle.dumps(r)),
        "pickle_unit": lambda r: pickle.loads(pickle.dumps(u(r))).registry,
        "pickle_array": lambda r: pickle.loads(pickle.dumps(arr(r))).units.registry,
        "pickle_quantity": lambda r: pickle.loads(pickle.dumps(qty(r))).units.registry,
        "unit_copy": lambda r: u(r).copy().registry,
        "unit_copy_deep": lambda r: u(r).copy(deep=True).registry,
        "deepcopy_unit": lambda r: copy.deepcopy(u(r)).registry,
        "deepcopy_array": lambda r: copy.deepcopy(arr(r)).units.registry,
        "deepcopy_quantity": lambda r: copy.deepcopy(qty(r)).units.registry,
    }

    # sibling routes: (first, second) made in ONE call; the shape of `second` is measured against `first`
    def pair_pickle_arrays(r):
        a, b = pickle.loads(pickle.dumps((arr(r), qty(r))))
        return a.units.registry, b.units.registry

    def pair_pickle_units(r):
        a, b = pickle.loads(pickle.dumps([Unit("vfoo", registry=r), Unit("vfoo*s", registry=r)]))
        return a.registry, b.registry

    def pair_deepcopy_arrays(r):
        a, b = copy.deepcopy((arr(r), qty(r)))
        return a.units.registry, b.units.registry

    def pair_deepcopy_registries(r):
        a, b = copy.deepcopy([r, copy.copy(r)])
        return a, b

    def pair_json(r):
        t = r.to_json()
        return UnitRegistry.from_json(t), UnitRegistry.from_json(t)

    def pair_pickle_dict(r):
        d = pickle.loads(pickle.dumps({"x": arr(r), "y": arr(r) * 2.0}))
        return d["x"].units.registry, d["y"].units.registry

    siblings = {
        "sibling_pickle_arrays": pair_pickle_arrays,
        "sibling_pickle_units": pair_pickle_units,
        "sibling_deepcopy_arrays": pair_deepcopy_arrays,
        "sibling_deepcopy_registries": pair_deepcopy_registries,
        "sibling_json": pair_json,
        "sibling_pickle_dict": pair_pickle_dict,
    }
    return single, siblings


def _probe(unyt):
    from unyt.unit_registry import UnitRegistry, default_unit_registry
    from unyt._unit_lookup_table import default_unit_symbol_lut

    single, siblings = _routes(unyt)
    rows = {}
    errors = {}
    same_object = []
    for name, f in single.items():
        try:
            src = _prepared(unyt)
            removed = _removed_default(src)
            new = f(src)
            sh = _shape(unyt, src, new, removed)
            # the class of the same route applied to the default registry (read-only routes)
            try:
                dn = f_default(name, unyt)
                sh["keepsClass"] = dn
            except Exception:
                sh["keepsClass"] = False
            sh["is_new_object"] = new is not src
            rows[name] = sh
        except Exception as e:  # a route that raises is reported, not guessed
            errors[name] = f"{type(e).__name__}: {e}"
    for name, f in siblings.items():
        try:
            src = _prepared(unyt)
            removed = _removed_default(src)
            a, b = f(src)
            if b is a:
                # both restored objects point at ONE registry object (they shared one before): no second
                # registry was made, there is nothing to isolate
                same_object.append(name)
                continue
            # give the first sibling the residue the shape measurement looks for
            from unyt import Unit
            Unit("kvfoo", registry=a)
            Unit("vfoo*s", registry=a)
            a.unit_system_id
            sh = _shape(unyt, a, b, removed)
            # sharing with the ORIGINAL registry as well: a sibling must not alias the source either
            so = _shape(unyt, src, b, removed)
            for k in ("lut", "cache", "derived"):
                if so[k] == "same":
                    sh[k] = "same"
            sh["keepsClass"] = False
            sh["is_new_object"] = b is not a
            # a sibling starts without residue of its own: contents columns are those of the pair's route
            sh["keepsMemo"] = b._unit_system_id is not None
            rows[name] = sh
        except Exception as e:
            errors[name] = f"{type(e).__name__}: {e}"

    # __init__
    d = {"vfoo": (2.0, unyt.dimensions.length, 0.0, r"\rm{vfoo}", False)}
    r1 = UnitRegistry(lut=d, add_default_symbols=False)
    e = {}
    r2 = UnitRegistry(lut=e, add_default_symbols=False)
    d3 = {"vfoo": (2.0, unyt.dimensions.length, 0.0, r"\rm{vfoo}", False)}
    r3 = UnitRegistry(lut=d3)
    r4 = UnitRegistry()
    r5 = UnitRegistry()
    init = dict(
        keepsReference=r1.lut is d,
        emptyReplaced=r2.lut is not e,
        defaultsIntoCallersDict=("m" in d3 and r3.lut is d3),
        freshSharesGlobal=(r4.lut is default_unit_symbol_lut or r4.lut is default_unit_registry.lut
                           or r4.lut is r5.lut or default_unit_registry.lut is default_unit_symbol_lut),
        freshSharesCache=(r4._unit_object_cache is r5._unit_object_cache
                          or r4._unit_object_cache is default_unit_registry._unit_object_cache
                          or r4._derived_symbols is r5._derived_symbols
                          or r4._derived_symbols is default_unit_registry._derived_symbols),
    )
    return rows, errors, init, same_object


def f_default(name, unyt):
    """is the registry this route makes out of the DEFAULT registry non-modifiable?"""
    from unyt import Unit, unyt_array, unyt_quantity
    from unyt.unit_registry import UnitRegistry, _NonModifiableUnitRegistry, default_unit_registry as D

    mk = {
        "copy_registry": lambda: copy.copy(D),
        "deepcopy_registry": lambda: copy.deepcopy(D),
        "json": lambda: UnitRegistry.from_json(D.to_json()),
        "pickle_registry": lambda: pickle.loads(pickle.dumps(D)),
        "pickle_unit": lambda: pickle.loads(pickle.dumps(Unit("m"))).registry,
        "pickle_array": lambda: pickle.loads(pickle.dumps(unyt_array([1.0], "m"))).units.registry,
        "pickle_quantity": lambda: pickle.loads(pickle.dumps(unyt_quantity(1.0, "m"))).units.registry,
        "unit_copy": lambda: Unit("m").copy().registry,
        "unit_copy_deep": lambda: Unit("m").copy(deep=True).registry,
        "deepcopy_unit": lambda: copy.deepcopy(Unit("m")).registry,
        "deepcopy_array": lambda: copy.deepcopy(unyt_array([1.0], "m")).units.registry,
        "deepcopy_quantity": lambda: copy.deepcopy(unyt_quantity(1.0, "m")).units.registry,
    }[name]
    new = mk()
    return isinstance(new, _NonModifiableUnitRegistry)


def _world_cfg(unyt):
    import numpy as np
    from unyt import Unit, unyt_array, unyt_quantity
    from unyt.unit_registry import UnitRegistry
    import unyt.dimensions as D

    ra, rb = UnitRegistry(), UnitRegistry()
    ra.add("vfoo", 2.0, D.length)
    rb.add("vbar", 3.0, D.time)
    ua, ub = Unit("vfoo", registry=ra), Unit("vbar", registry=rb)
    ca0, cb0 = set(ra._unit_object_cache), set(rb._unit_object_cache)
    la0, lb0 = dict(ra.lut), dict(rb.lut)
    res = [ua * ub, ua / ub, ua**2 * ub]
    # is a unit built with explicit data (the results above) stored in a string cache?
    made = {id(x) for x in res}
    caches_explicit = (any(id(v) in made for v in ra._unit_object_cache.values())
                       or any(id(v) in made for v in rb._unit_object_cache.values())
                       or set(ra._unit_object_cache) != ca0 or set(rb._unit_object_cache) != cb0)
    unit_level_writes = dict(ra.lut) != la0 or dict(rb.lut) != lb0
    # array level: symbols both registries know (the tables differ, so no lru_cache entry is shared)
    xa, xb = unyt_array([1.0, 2.0], "m", registry=ra), unyt_quantity(3.0, "s", registry=rb)
    ares = [xa * xb, xa / xb, xb * xa]
    # array level may look symbols up (simplify): only written-back prefixed rows may appear, and only on the left
    def user_rows(t):
        return {k: v for k, v in t.items()}
    writes_table = unit_level_writes or user_rows(rb.lut) != lb0 or any(
        k not in la0 and not (len(k) > 1 and k[1:] in la0 or k[2:] in la0) for k in ra.lut)
    uses_left = (all(x.registry is ra for x in res) and ares[0].units.registry is ra and ares[1].units.registry is ra
                 and ares[2].units.registry is rb)
    # define_unit in a custom registry must not touch the unyt namespace nor the default registry
    from unyt import define_unit
    from unyt.unit_registry import default_unit_registry as DR
    import unyt as _u

    rc = UnitRegistry()
    before = set(vars(_u))
    define_unit("c13probeunit", (2.0, "m"), registry=rc, prefixable=True)
    exports_custom = (set(vars(_u)) != before) or ("c13probeunit" in DR.lut)
    # the process-wide caches of the unit rules: two registries with IDENTICAL contents (equal-looking units);
    # arithmetic inside the second one after the same arithmetic inside the first
    r1, r2 = UnitRegistry(), UnitRegistry()
    leaks = False
    for op in (lambda a, b: a * b, lambda a, b: a / b, lambda a, b: a + 2 * a, lambda a, b: np.sqrt(a), lambda a, b: a**2,
               lambda a, b: np.maximum(a, a), lambda a, b: 1 / a):
        for r in (r1, r2):
            a, b = unyt_array([1.0, 2.0], "km", registry=r), unyt_quantity(3.0, "hr", registry=r)
            res = op(a, b)
            if getattr(res, "units", None) is not None and res.units.registry is not r:
                leaks = True
    return dict(cachesExplicit=bool(caches_explicit), mixedUsesLeft=bool(uses_left), mixedWritesTable=bool(writes_table),
                defineUnitLeaks=bool(exports_custom), ruleCacheLeaks=bool(leaks))


def _default_refuses(unyt):
    from unyt.unit_registry import default_unit_registry as D

    before = dict(D.lut)
    memo = D._unit_system_id
    ok = True
    for call in (lambda: D.modify("m", 2.0), lambda: D.remove("m"), lambda: D.modify("no_such_symbol", 2.0),
                 lambda: D.remove("no_such_symbol"), lambda: D.modify("km", 5.0)):
        try:
            call()
            ok = False
        except TypeError:
            pass
        except Exception:
            ok = False
    unchanged = dict(D.lut) == before and D._unit_system_id == memo
    return bool(ok and unchanged)


def generate(X):
    import unyt

    rows, errors, init, same_object = _probe(unyt)
    wc = _world_cfg(unyt)
    refuses = _default_refuses(unyt)
    b = lambda x: "true" if x else "false"  # noqa: E731

    def shape(sh):
        return (f"⟨.{sh['lut']}, {b(sh['addMissingDefaults'])}, .{sh['cache']}, .{sh['derived']}, "
                f"{b(sh['keepsMemo'])}, {b(sh['keepsUsys'])}, {b(sh['keepsClass'])}⟩")

    names = sorted(rows)
    text = (
        X.header("UnytModel.RegistryWorld")
        + "namespace Unyt.Generated\nopen Unyt.RegWorld\n\n"
        + "/-- per creation route, measured on the live objects (tools/extract.d/c13_routes.py):\n"
        + "    `⟨lut, addMissingDefaults, cache, derived, keepsMemo, keepsUsys, keepsClass⟩` -/\n"
        + "def registryRoutes : List (String × RouteShape) := [\n"
        + ",\n".join(f"  ({X.lstr(n)}, {shape(rows[n])})" for n in names)
        + "\n]\n\n"
        + "/-- routes whose probe raised (none on the unchanged tree) -/\n"
        + "def registryRouteErrors : List String := [" + ", ".join(X.lstr(n) for n in sorted(errors)) + "]\n\n"
        + "/-- routes that handed back the source registry object itself (`Unit.copy()` of a unit whose string is\n"
        + "    cached returns the cached unit; two units restored from one pickle share one registry object) -/\n"
        + "def registrySameObjectRoutes : List String := ["
        + ", ".join(X.lstr(n) for n in sorted([k for k, r in rows.items() if not r['is_new_object']] + same_object)) + "]\n\n"
        + "/-- after a route that copies the string cache every cached `Unit` points at the new registry; a route\n"
        + "    that makes a new table carries the source's rows (apart from written-back ones) over unchanged -/\n"
        + f"def routeUnitsRebound : Bool := {b(all(r['rebound'] for r in rows.values()))}\n"
        + f"def routeRowsCarried : Bool := {b(all(r['rows_carried'] for r in rows.values()))}\n\n"
        + "/-- `UnitRegistry.__init__`: ⟨lut= kept by reference, empty dict replaced, defaults written into the\n"
        + "    caller's dict, a fresh registry shares a table with the module / the default registry / another\n"
        + "    fresh registry, … shares a cache or derived set⟩ -/\n"
        + "structure InitShape where\n  keepsReference : Bool\n  emptyReplaced : Bool\n  defaultsIntoCallersDict : Bool\n"
        + "  freshSharesGlobal : Bool\n  freshSharesCache : Bool\nderiving DecidableEq, Repr\n\n"
        + f"def initShape : InitShape := ⟨{b(init['keepsReference'])}, {b(init['emptyReplaced'])}, "
        + f"{b(init['defaultsIntoCallersDict'])}, {b(init['freshSharesGlobal'])}, {b(init['freshSharesCache'])}⟩\n\n"
        + "/-- explicit-data units and the string cache; whose registry a mixed-registry result carries -/\n"
        + f"def worldCfg : WCfg := ⟨{b(wc['cachesExplicit'])}⟩\n"
        + f"def mixedUsesLeft : Bool := {b(wc['mixedUsesLeft'])}\n"
        + f"def mixedWritesTable : Bool := {b(wc['mixedWritesTable'])}\n"
        + "/-- `define_unit(…, registry=<custom>)` set an attribute on the `unyt` module or wrote the default table -/\n"
        + f"def defineUnitLeaks : Bool := {b(wc['defineUnitLeaks'])}\n"
        + "/-- arithmetic inside one of two registries with identical contents returned units of the OTHER one\n"
        + "    (a cached unit rule keyed without the registry) -/\n"
        + f"def ruleCacheLeaks : Bool := {b(wc['ruleCacheLeaks'])}\n\n"
        + "/-- `default_unit_registry.modify/remove` raise TypeError and leave table and memo alone -/\n"
        + f"def defaultRefuses : Bool := {b(refuses)}\n\n"
        + "end Unyt.Generated\n"
    )
    X.write_if_changed(os.path.join(X.GEN, "RegistryRoutes.lean"), text)
    return {"routes": rows, "errors": errors, "init": init, "world": wc, "default_refuses": refuses,
            "same_object_siblings": same_object}
