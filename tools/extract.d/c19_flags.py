"""C19 translator plugin: regenerates `UnytModel/Generated/TestingFlags.lean` from the live source.

The model of `allclose_units` (lean/UnytModel/Testing.lean) exists in two variants that differ in
the unit a *bare* `atol` is read in: `actual`'s unit (what unyt does at the pinned commit — the
bare number is attached to `des.units` after `des` has already been converted) or `desired`'s own
unit (what the docstring promises; the repaired code).  Which variant is the live one is decided
here on every run by a behavioural probe of the real function, cross-checked by an `ast` pass over
its source, so that applying the fix to unyt flips the flag without any edit in the framework.
"""
import ast
import inspect
import os
import textwrap


PROBES = [
    # (actual value, actual unit, desired value, desired unit, bare atol): the two readings of
    # `atol` give different verdicts on every line, exactly representable numbers only
    (1.0, "m", 150.0, "cm", 0.625),
    (150.0, "cm", 1.0, "m", 0.625),
    (2.0, "s", 2500.0, "ms", 0.75),
    (2500.0, "ms", 2.0, "s", 0.75),
    (1.0, "kg", 1250.0, "g", 0.5),
    (1250.0, "g", 1.0, "kg", 0.5),
    (3.0, "km", 3250.0, "m", 0.5),
    (3250.0, "m", 3.0, "km", 0.5),
]


def probe(unyt):
    from fractions import Fraction as F

    votes = set()
    rows = []
    for av, au, dv, du, atol in PROBES:
        got = bool(unyt.allclose_units(unyt.unyt_quantity(av, au), unyt.unyt_quantity(dv, du), rtol=0, atol=atol))
        sa = F(unyt.Unit(au).base_value)
        sd = F(unyt.Unit(du).base_value)
        diff = abs(F(av) * sa - F(dv) * sd)
        in_act = diff <= F(atol) * sa
        in_des = diff <= F(atol) * sd
        assert in_act != in_des, "probe does not discriminate"
        if got == in_act:
            votes.add("actual")
        elif got == in_des:
            votes.add("desired")
        rows.append({"actual": f"{av} {au}", "desired": f"{dv} {du}", "atol": atol, "verdict": got})
    if len(votes) != 1:
        raise RuntimeError(f"allclose_units reads a bare atol neither consistently in actual's nor in desired's unit: {rows}")
    return votes.pop(), rows


class Unsupported(Exception):
    pass


def sx(node, env):
    """python expression -> canonical s-expression, local variables replaced by their definitions
    (so renaming or inlining a local leaves the text unchanged)"""
    if isinstance(node, ast.Name):
        if node.id in env:
            return env[node.id]
        return node.id
    if isinstance(node, ast.Constant):
        v = node.value
        if isinstance(v, bool) or v is None:
            return repr(v)
        if isinstance(v, (int, float)):
            return repr(float(v)) if isinstance(v, float) else repr(v)
        if isinstance(v, str):
            return "'" + v + "'"
        raise Unsupported(ast.dump(node))
    if isinstance(node, ast.Attribute):
        return f"({node.attr} {sx(node.value, env)})"
    if isinstance(node, ast.Call):
        args = [sx(a, env) for a in node.args]
        for kw in node.keywords:
            args.append(("**" + sx(kw.value, env)) if kw.arg is None else f"{kw.arg}={sx(kw.value, env)}")
        if isinstance(node.func, ast.Attribute):
            # method call: (method receiver args…); module functions keep their dotted name
            if isinstance(node.func.value, ast.Name) and node.func.value.id in ("np", "numpy"):
                return "(" + " ".join([f"np.{node.func.attr}"] + args) + ")"
            return "(" + " ".join([node.func.attr, sx(node.func.value, env)] + args) + ")"
        if isinstance(node.func, ast.Name):
            return "(" + " ".join([node.func.id] + args) + ")"
        raise Unsupported(ast.dump(node))
    if isinstance(node, ast.BinOp) and isinstance(node.op, (ast.Mult, ast.Sub, ast.Add, ast.Div)):
        op = {ast.Mult: "*", ast.Sub: "-", ast.Add: "+", ast.Div: "/"}[type(node.op)]
        return f"({op} {sx(node.left, env)} {sx(node.right, env)})"
    if isinstance(node, ast.UnaryOp) and isinstance(node.op, ast.Not):
        return f"(not {sx(node.operand, env)})"
    if isinstance(node, ast.Tuple):
        return "(tuple " + " ".join(sx(e, env) for e in node.elts) + ")"
    if isinstance(node, ast.JoinedStr):
        return "<message>"
    raise Unsupported(ast.dump(node))


def exits(stmts, env):
    """s-expression of a block that only leaves the function (handler / raising branch)"""
    out = []
    for st in stmts:
        if isinstance(st, ast.Return):
            out.append(f"(return {sx(st.value, env) if st.value is not None else 'None'})")
        elif isinstance(st, ast.Raise) and st.exc is not None:
            exc = st.exc.func.id if isinstance(st.exc, ast.Call) and isinstance(st.exc.func, ast.Name) else sx(st.exc, env)
            out.append(f"(raise {exc})")
        else:
            raise Unsupported("handler statement " + ast.dump(st))
    return " ".join(out)


def run_block(stmts, env, facts, path):
    """symbolic execution of straight-line code with try/if; `facts` collects, in source order,
    every guard (what is attempted, which exceptions are caught, how the function is left) and the
    returned expression; `env` maps locals to s-expressions over the parameters"""
    for st in stmts:
        if isinstance(st, ast.Expr) and isinstance(st.value, ast.Constant) and isinstance(st.value.value, str):
            continue  # docstring
        if isinstance(st, ast.Assign) and len(st.targets) == 1 and isinstance(st.targets[0], ast.Name):
            env[st.targets[0].id] = sx(st.value, env)
        elif isinstance(st, ast.Try) and not st.orelse and not st.finalbody:
            before = dict(env)
            inner = []
            run_block(st.body, env, inner, path)
            if inner:
                raise Unsupported("guards inside a try body")
            attempted = [f"({k} := {v})" for k, v in env.items() if before.get(k) != v]
            for h in st.handlers:
                if h.type is None:
                    names = ["<bare except>"]
                elif isinstance(h.type, ast.Tuple):
                    names = sorted(sx(e, {}) for e in h.type.elts)
                else:
                    names = [sx(h.type, {})]
                facts.append((path + "try", "(try " + " ".join(attempted) + " (except " + " ".join(names) + ") " + exits(h.body, before) + ")"))
            # after the try, the rebound locals are opaque "converted" values named by their definition
        elif isinstance(st, ast.If):
            test = sx(st.test, env)
            if all(isinstance(b, (ast.Raise, ast.Return)) for b in st.body) and not st.orelse:
                facts.append((path + "if", f"(if {test} {exits(st.body, env)})"))
                continue
            e1, e2 = dict(env), dict(env)
            run_block(st.body, e1, facts, path + f"when {test} / ")
            run_block(st.orelse, e2, facts, path + f"when (not {test}) / ")
            for k in sorted(set(e1) | set(e2)):
                a, b = e1.get(k), e2.get(k)
                if a == b:
                    if a is not None:
                        env[k] = a
                elif k in env or (a is not None and b is not None):
                    facts.append((path + "branch", f"({k} := (ite {test} {a} {b}))"))
                    env[k] = f"<{k}>"
                # a local defined in one branch only is a temporary of that branch
        elif isinstance(st, ast.Return):
            facts.append((path + "return", sx(st.value, env)))
        else:
            raise Unsupported("statement " + ast.dump(st)[:200])


def ast_shape(unyt):
    """`allclose_units` as a list of facts in source order (guards, branch merges, returned call),
    locals substituted away"""
    import unyt.array as ua

    src = textwrap.dedent(inspect.getsource(ua.allclose_units))
    fn = ast.parse(src).body[0]
    params = [a.arg for a in fn.args.args]
    facts = [("params", " ".join(params))]
    run_block(fn.body, {}, facts, "")
    return facts


def lean_facts(X, facts):
    rows = ",\n".join(f"  ({X.lstr(k)}, {X.lstr(v)})" for k, v in facts)
    return (
        "/-- `unyt.array.allclose_units` read by `ast` (symbolic execution of its body, locals\n"
        "    substituted by their definitions): the guards in source order — what is attempted, which\n"
        "    exceptions are caught, how the function is left —, the branch on the kind of `atol`, and the\n"
        "    final call; compared with `Ref.allcloseSourceExpected` by `allclose_source_shape` -/\n"
        "def allcloseSource : List (String × String) := [\n" + rows + "\n]\n"
    )


def generate(X):
    import unyt

    where, rows = probe(unyt)
    flag = where == "desired"
    shape = ast_shape(unyt)
    text = (
        "-- GENERATED by tools/extract.d/c19_flags.py from /repo — do not edit\n"
        "namespace Unyt.Generated\n\n"
        "/-- behavioural probe of `unyt.array.allclose_units` (8 discriminating calls): a bare `atol`\n"
        "    is read in `desired`'s own unit (`true`, the documented contract) or in `actual`'s unit\n"
        "    (`false`, the pinned commit) -/\n"
        f"def bareAtolInDesiredUnit : Bool := {'true' if flag else 'false'}\n\n"
        + lean_facts(X, shape)
        + "\nend Unyt.Generated\n"
    )
    X.write_if_changed(os.path.join(X.GEN, "TestingFlags.lean"), text)
    import unyt.dimensions as D
    import sympy

    dims = sorted(n for n in dir(D) if not n.startswith("_") and isinstance(getattr(D, n), sympy.Basic))
    return {"bare_atol_in_desired_unit": flag, "probe": rows, "ast": [list(f) for f in shape], "dimension_names": dims}
