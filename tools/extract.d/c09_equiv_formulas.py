"""C09 translator plugin: symbolic tracer for unyt/equivalencies.py.

Every `_convert` branch of every registered equivalence is *run* on a tracer object, once with
`Equivalence()` (copy mode) and once with `Equivalence(in_place=True)`:

* the input `x` is a buffer object whose `__array_ufunc__` records each NumPy ufunc call
  (function, arguments by object identity, whether `out=` is the input buffer) instead of
  computing numbers;  `x.units.dimensions` is the *current* dimension of the buffer
  (it follows `out=` writes, as `out.units = …` does in unyt_array.__array_ufunc__);
* `unyt.physical_constants` is replaced, for the duration of the call, by a proxy whose
  attributes are symbolic constants (carrying the dimension of the real constant);
* the keyword parameters of `_convert` (mu, gamma, … — read off its signature) are symbolic
  parameters.

The recorded chains are written as Lean data (`Unyt.Generated.equivalences`, file
`UnytModel/Generated/EquivFormulas.lean`) together with `_dims`, the keyword defaults and the
SI value / dimension of each physical constant that occurs.  Nothing is interpreted here: what a
chain *means* (SSA reading, single-buffer reading, the formula it denotes, its normal form) is
defined in Lean (`UnytModel/Equivalencies.lean`) and the obligations over the whole table are
decided by the kernel.
"""
import inspect
import os
from fractions import Fraction

import numpy as np
import sympy


class TraceError(Exception):
    pass


# ----------------------------------------------------------------------------------------
# expression nodes (immutable): ("atom", name) | ("lit", Fraction) | (op, a, b) | ("sqrt", a)
# | ("pow", a, Fraction)


def lit_node(v):
    if isinstance(v, (bool, np.bool_)):
        raise TraceError(f"boolean literal {v!r}")
    if isinstance(v, (int, np.integer)):
        return ("lit", Fraction(int(v)))
    if isinstance(v, (float, np.floating)):
        v = float(v)
        if v != v or v in (float("inf"), float("-inf")):
            raise TraceError(f"non-finite literal {v!r}")
        return ("lit", Fraction(v))
    raise TraceError(f"unsupported literal {v!r} of type {type(v).__name__}")


def node_str(n):
    k = n[0]
    if k == "atom":
        return n[1]
    if k == "lit":
        return str(n[1])
    if k == "sqrt":
        return f"sqrt({node_str(n[1])})"
    if k == "pow":
        return f"({node_str(n[1])})**({n[2]})"
    sym = {"mul": "*", "div": "/", "sub": "-", "add": "+"}[k]
    return f"({node_str(n[1])} {sym} {node_str(n[2])})"


class Recorder:
    """the state of one traced `_convert` call"""

    def __init__(self, from_dim):
        self.ops = []  # (fn, [args], out_is_buf)   fn = "mul"|"div"|"sub"|"add"|"sqrt"|("pow", q)
        self.tmps = []  # Arr objects created by ops, by index
        self.buf = None
        self.from_dim = from_dim

    # -- the dimension bookkeeping only serves `x.units.dimensions` reads after a write
    def apply(self, fn, nodes, dims):
        if fn == "mul":
            return ("mul", nodes[0], nodes[1]), dims[0] * dims[1]
        if fn == "div":
            return ("div", nodes[0], nodes[1]), dims[0] / dims[1]
        if fn == "sub":
            return ("sub", nodes[0], nodes[1]), dims[0]
        if fn == "add":
            return ("add", nodes[0], nodes[1]), dims[0]
        if fn == "sqrt":
            return ("sqrt", nodes[0]), dims[0] ** sympy.Rational(1, 2)
        if isinstance(fn, tuple) and fn[0] == "pow":
            q = fn[1]
            return ("pow", nodes[0], q), dims[0] ** sympy.Rational(q.numerator, q.denominator)
        raise TraceError(f"unknown function {fn!r}")

    def arg_of(self, a):
        """(wire argument, current node, current dim) of a ufunc input"""
        if isinstance(a, Arr):
            if a.rec is not self:
                raise TraceError("array from another trace")
            if a.index is None:
                return ("buf",), a.node, a.dim
            if a.alias:
                # the object returned by an `out=x` call shares memory with the buffer
                return ("tmp", a.index), self.buf.node, self.buf.dim
            return ("tmp", a.index), a.node, a.dim
        if isinstance(a, Const):
            return ("c", a.node), a.node, a.dim
        n = lit_node(a)
        return ("c", n), n, sympy.Integer(1)

    def ufunc(self, ufunc, method, inputs, kwargs):
        if method != "__call__":
            raise TraceError(f"ufunc method {method} is outside the traced vocabulary")
        out = kwargs.pop("out", None)
        if kwargs:
            raise TraceError(f"ufunc keyword(s) {sorted(kwargs)} are outside the traced vocabulary")
        if isinstance(out, tuple):
            if len(out) != 1:
                raise TraceError("multiple outputs")
            out = out[0]
        out_is_buf = False
        if out is not None:
            if out is self.buf:
                out_is_buf = True
            else:
                raise TraceError("out= target is not the input array")
        name = ufunc.__name__
        table = {"multiply": "mul", "true_divide": "div", "divide": "div", "subtract": "sub", "add": "add", "sqrt": "sqrt"}
        if name in table:
            fn = table[name]
            want = 1 if fn == "sqrt" else 2
            if len(inputs) != want:
                raise TraceError(f"{name} with {len(inputs)} inputs")
            ins = inputs
        elif name == "power":
            if len(inputs) != 2:
                raise TraceError("power with != 2 inputs")
            e = inputs[1]
            if isinstance(e, (Arr, Const)):
                raise TraceError("symbolic exponent")
            fn = ("pow", lit_node(e)[1])
            ins = inputs[:1]
        elif name == "square":
            fn = ("pow", Fraction(2))
            ins = inputs
        elif name == "reciprocal":
            fn = ("pow", Fraction(-1))
            ins = inputs
        else:
            raise TraceError(f"ufunc {name} is outside the traced vocabulary")
        wires, nodes, dims = [], [], []
        for a in ins:
            w, n, d = self.arg_of(a)
            wires.append(w)
            nodes.append(n)
            dims.append(d)
        node, dim = self.apply(fn, nodes, dims)
        self.ops.append((fn, wires, out_is_buf))
        idx = len(self.tmps)
        res = Arr(self, idx, node, dim, alias=out_is_buf)
        self.tmps.append(res)
        if out_is_buf:
            self.buf.node = node
            self.buf.dim = dim
        return res


class _Units:
    def __init__(self, arr):
        self._arr = arr

    @property
    def dimensions(self):
        a = self._arr
        if a.alias:
            return a.rec.buf.dim
        return a.dim


class Tracked:
    __array_priority__ = 1000

    def __array_ufunc__(self, ufunc, method, *inputs, **kwargs):
        rec = None
        for a in list(inputs) + list(kwargs.get("out") or ()):
            if isinstance(a, Arr):
                rec = a.rec
        if rec is None:
            # constants only: ordinary arithmetic on symbolic constants
            return Const.from_ufunc(ufunc, method, inputs, kwargs)
        return rec.ufunc(ufunc, method, inputs, dict(kwargs))


class Arr(Tracked):
    """an array value of the trace: the input buffer (index None) or the result of op `index`"""

    def __init__(self, rec, index, node, dim, alias=False):
        self.rec = rec
        self.index = index
        self.node = node
        self.dim = dim
        self.alias = alias
        self.units = _Units(self)

    # python operators on arrays are ufunc calls in unyt
    def __mul__(self, o):
        return np.multiply(self, o)

    def __rmul__(self, o):
        return np.multiply(o, self)

    def __truediv__(self, o):
        return np.true_divide(self, o)

    def __rtruediv__(self, o):
        return np.true_divide(o, self)

    def __sub__(self, o):
        return np.subtract(self, o)

    def __rsub__(self, o):
        return np.subtract(o, self)

    def __add__(self, o):
        return np.add(self, o)

    def __radd__(self, o):
        return np.add(o, self)

    def __pow__(self, e):
        return np.power(self, e)


class Const(Tracked):
    """a symbolic scalar that does not depend on the input: physical constants, keyword
    parameters, literals and arithmetic on them"""

    def __init__(self, node, dim):
        self.node = node
        self.dim = dim

    @staticmethod
    def lift(o):
        if isinstance(o, Const):
            return o
        return Const(lit_node(o), sympy.Integer(1))

    @staticmethod
    def from_ufunc(ufunc, method, inputs, kwargs):
        if method != "__call__" or kwargs:
            raise TraceError("ufunc on constants outside the traced vocabulary")
        name = ufunc.__name__
        cs = [Const.lift(i) for i in inputs]
        if name == "multiply":
            return cs[0] * cs[1]
        if name in ("true_divide", "divide"):
            return cs[0] / cs[1]
        if name == "subtract":
            return cs[0] - cs[1]
        if name == "add":
            return cs[0] + cs[1]
        if name == "sqrt":
            return Const(("sqrt", cs[0].node), cs[0].dim ** sympy.Rational(1, 2))
        raise TraceError(f"ufunc {name} on constants is outside the traced vocabulary")

    def __mul__(self, o):
        o = Const.lift(o)
        return Const(("mul", self.node, o.node), self.dim * o.dim)

    def __rmul__(self, o):
        o = Const.lift(o)
        return Const(("mul", o.node, self.node), o.dim * self.dim)

    def __truediv__(self, o):
        o = Const.lift(o)
        return Const(("div", self.node, o.node), self.dim / o.dim)

    def __rtruediv__(self, o):
        o = Const.lift(o)
        return Const(("div", o.node, self.node), o.dim / self.dim)

    def __sub__(self, o):
        o = Const.lift(o)
        return Const(("sub", self.node, o.node), self.dim)

    def __rsub__(self, o):
        o = Const.lift(o)
        return Const(("sub", o.node, self.node), o.dim)

    def __add__(self, o):
        o = Const.lift(o)
        return Const(("add", self.node, o.node), self.dim)

    def __radd__(self, o):
        o = Const.lift(o)
        return Const(("add", o.node, self.node), o.dim)

    def __pow__(self, e):
        if isinstance(e, (Arr, Const)):
            raise TraceError("symbolic exponent")
        q = lit_node(e)[1]
        return Const(("pow", self.node, q), self.dim ** sympy.Rational(q.numerator, q.denominator))


def canonical_constant(name):
    """the key of `unyt._unit_lookup_table.physical_constants` a `physical_constants` attribute is
    an alias of (`kboltz`, `boltzmann_constant_mks`, `kb_cgs` … -> `kb`): all of them are built by
    `add_constants` from the same table row, so they are the same physical quantity"""
    from unyt._unit_lookup_table import physical_constants as table

    cands = [name]
    for suf in ("_mks", "_cgs"):
        if name.endswith(suf):
            cands.append(name[: -len(suf)])
    if name in ("hmks", "hcgs"):
        cands.append("h")
    for c in cands:
        for key, (_v, _u, alts) in table.items():
            if c == key or c in alts:
                return key
    return name


class PcProxy:
    """stands in for the module `unyt.physical_constants` while a `_convert` is traced"""

    def __init__(self, real, used):
        object.__setattr__(self, "_real", real)
        object.__setattr__(self, "_used", used)

    def __getattr__(self, name):
        real = object.__getattribute__(self, "_real")
        used = object.__getattribute__(self, "_used")
        q = getattr(real, name)  # AttributeError for a constant that does not exist
        if not hasattr(q, "units"):
            raise TraceError(f"physical_constants.{name} is not a quantity")
        canon = canonical_constant(name)
        si = float(q.in_mks().v)
        if canon in used:
            si0 = float(used[canon].in_mks().v)
            if used[canon].units.dimensions != q.units.dimensions or abs(si - si0) > 1e-12 * abs(si0):
                raise TraceError(f"physical_constants.{name} and its alias {canon} differ")
        else:
            used[canon] = q
        return Const(("atom", "c." + canon), q.units.dimensions)


def trace_branch(cls, from_dim, to_dim, in_place, params, used):
    """run cls(in_place)._convert(x, to_dim, **symbolic params); returns a dict"""
    import unyt

    rec = Recorder(from_dim)
    x = Arr(rec, None, ("atom", "x"), from_dim)
    rec.buf = x
    real_pc = unyt.physical_constants
    kw = {p: Const(("atom", "p." + p), sympy.Integer(1)) for p in params}
    unyt.physical_constants = PcProxy(real_pc, used)
    try:
        inst = cls(in_place=in_place) if in_place else cls()
        ret = inst._convert(x, to_dim, **kw)
    finally:
        unyt.physical_constants = real_pc
    if ret is None:
        rw = None
    elif isinstance(ret, (Arr, Const)):
        rw = rec.arg_of(ret)[0]
    else:
        raise TraceError(f"_convert returned {type(ret).__name__}")
    return {"ops": rec.ops, "ret": rw, "buf_node": rec.buf.node, "ret_node": (rec.arg_of(ret)[1] if ret is not None else None)}


# ----------------------------------------------------------------------------------------
# Lean printing


def lean_rat(q):
    q = Fraction(q)
    if q.denominator == 1:
        return f"({q.numerator} : Rat)"
    return f"(({q.numerator} : Rat) / {q.denominator})"


def lean_node(X, n):
    k = n[0]
    if k == "atom":
        return f"(.atom {X.lstr(n[1])})"
    if k == "lit":
        return f"(.lit {lean_rat(n[1])})"
    if k == "sqrt":
        return f"(.sqrt {lean_node(X, n[1])})"
    if k == "pow":
        return f"(.pow {lean_node(X, n[1])} {lean_rat(n[2])})"
    return f"(.{k} {lean_node(X, n[1])} {lean_node(X, n[2])})"


def lean_arg(X, w):
    if w[0] == "buf":
        return ".buf"
    if w[0] == "tmp":
        return f"(.tmp {w[1]})"
    return f"(.c {lean_node(X, w[1])})"


def lean_fn(fn):
    if isinstance(fn, tuple):
        return f"(.pow {lean_rat(fn[1])})"
    return "." + fn


def lean_trace(X, t):
    if t is None:
        return "none"
    ops = ", ".join(f"⟨{lean_fn(fn)}, [{', '.join(lean_arg(X, w) for w in ws)}], {'true' if ob else 'false'}⟩" for fn, ws, ob in t["ops"])
    ret = "none" if t["ret"] is None else f"(some {lean_arg(X, t['ret'])})"
    return f"(some ⟨[{ops}], {ret}⟩)"


def generate(X):
    import unyt
    from unyt.equivalencies import Equivalence, equivalence_registry

    used = {}
    recs = []
    J = {"equivalences": [], "constants": {}, "errors": []}
    for name, cls in equivalence_registry.items():
        dims = list(cls._dims)
        sig = inspect.signature(cls._convert)
        pnames = list(sig.parameters)[3:]
        params = []
        for p in pnames:
            d = sig.parameters[p].default
            if d is inspect.Parameter.empty:
                raise TraceError(f"{cls.__name__}._convert: parameter {p} has no default")
            params.append((p, float(d)))
        branches = []
        jb = []
        for a in dims:
            for b in dims:
                if a == b:
                    continue
                tr = {}
                for mode in ("copy", "inplace"):
                    try:
                        tr[mode] = trace_branch(cls, a, b, mode == "inplace", [p for p, _ in params], used)
                    except TraceError as e:
                        tr[mode] = None
                        J["errors"].append(f"{name} {a}->{b} {mode}: {e}")
                    except Exception as e:  # the branch itself raised on the tracer
                        tr[mode] = None
                        J["errors"].append(f"{name} {a}->{b} {mode}: {type(e).__name__}: {e}")
                va, vb = X.dim_vec(a), X.dim_vec(b)
                branches.append(
                    f"    ⟨{X.ldim(va)}, {X.ldim(vb)},\n      {lean_trace(X, tr['copy'])},\n      {lean_trace(X, tr['inplace'])}⟩"
                )
                jb.append({
                    "from": X.jdim(va), "to": X.jdim(vb), "from_str": str(a), "to_str": str(b),
                    "copy": None if tr["copy"] is None or tr["copy"]["ret_node"] is None else node_str(tr["copy"]["ret_node"]),
                    "inplace": None if tr["inplace"] is None else node_str(tr["inplace"]["buf_node"]),
                    "nops": None if tr["copy"] is None else len(tr["copy"]["ops"]),
                })
        dimrows = ", ".join(X.ldim(X.dim_vec(d)) for d in dims)
        prows = ", ".join(f"({X.lstr(p)}, {X.bits(v)})" for p, v in params)
        recs.append(
            f"  ⟨{X.lstr(name)}, {X.lstr(cls.__name__)}, [{dimrows}], [{prows}], [\n" + ",\n".join(branches) + "\n  ]⟩"
        )
        J["equivalences"].append({
            "name": name, "cls": cls.__name__, "dims": [X.jdim(X.dim_vec(d)) for d in dims], "dims_str": [str(d) for d in dims],
            "params": [[p, X.bits(v)] for p, v in params], "branches": jb,
        })
    # what becomes of a reading on an offset scale that a chain raises to a power: `np.power`
    # itself refuses it (`Unit.__pow__`), or the next multiply/divide applied to the power does
    # (`Unit.__mul__` / `_cancel_mul` see the offset atom), or nobody does (the offset is dropped)
    ERRS = {"UnitOperationError", "UnitConversionError", "UnitParseError", "InvalidUnitOperation", "UnitInconsistencyError",
            "InvalidUnitEquivalence", "TypeError", "ValueError", "RuntimeError", "KeyError"}
    pow_refuses, pow_stage = None, None
    try:
        powered = np.power(unyt.unyt_array(np.array([1.0]), "degC"), 4)
        try:
            np.multiply(unyt.unyt_quantity(1.0, "W/m**2/K**4"), powered)
        except Exception as e:  # noqa: BLE001 - the class is the datum
            pow_refuses, pow_stage = type(e).__name__, "multiply-after-power"
    except Exception as e:  # noqa: BLE001
        pow_refuses, pow_stage = type(e).__name__, "power"
    J["pow_stage"] = pow_stage
    J["pow_refuses"] = pow_refuses
    lean_pow = "none" if pow_refuses is None else f"(some .{pow_refuses})" if pow_refuses in ERRS else "(some .Other)"
    crow = []
    for cname in sorted(used):
        q = used[cname]
        si = q.in_mks()
        vec = X.dim_vec(q.units.dimensions)
        crow.append(f"  ({X.lstr(cname)}, {X.bits(float(si.v))}, {X.ldim(vec)})")
        J["constants"][cname] = {"bits": X.bits(float(si.v)), "dim": X.jdim(vec), "units": str(si.units)}
    text = (
        "-- GENERATED by tools/extract.d/c09_equiv_formulas.py from unyt/equivalencies.py — do not edit\n"
        "import UnytModel.Equivalencies\nset_option maxRecDepth 1000000\n"
        "namespace Unyt.Generated\nopen Unyt.Equiv\n\n"
        "/-- the physical constants the traced branches read off `unyt.physical_constants`:\n"
        "    (attribute name, bits of the SI (mks) value, dimensions) -/\n"
        "def equivConstants : List (String × Nat × Dim) := [\n" + ",\n".join(crow) + "\n]\n\n"
        "/-- `equivalence_registry`, in registration order: type_name, class, `_dims`, keyword\n"
        "    parameters of `_convert` with the bits of their defaults, and for every ordered pair of\n"
        "    distinct `_dims` the recorded ufunc chain in copy mode and in in-place mode -/\n"
        "def equivalences : List EquivRec := [\n" + ",\n".join(recs) + "\n]\n\n"
        "/-- what becomes of a reading on an offset scale that a chain raises to a power (probe:\n"
        "    `np.multiply(1 W/m**2/K**4, np.power(1 degC, 4))`): `some err` = `power` itself or the\n"
        "    multiply applied to the power raises `err`, `none` = the offset is dropped silently -/\n"
        f"def powRefuses : Option Err := {lean_pow}\n\nend Unyt.Generated\n"
    )
    X.write_if_changed(os.path.join(X.GEN, "EquivFormulas.lean"), text)
    return J
