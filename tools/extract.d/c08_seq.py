"""C08 translator plugin: the source of `unyt.array._coerce_iterable_units` — the unification of a
Python list/tuple of quantities that `unyt_array.__new__` and both operands of every binary ufunc go
through — read from the current source with `ast`.

Writes lean/UnytModel/Generated/TempSeqSrc.lean: the test that selects the conversion branch, the
statements of the per-element loop and every construction of the unified array (`ast.unparse` text
as lists of code points).  `UnytProofs/C08Tab5.lean` (`temp_seq_source_matches`) compares them with
the texts written next to `UnytModel.TempSeq.coerceIterable`; a loop that converts in any other way
than `datum.in_units(ff.units)` changes its text.  A source shape the pass does not recognise makes
the plugin fail (= broken translation).
"""
import ast
import inspect
import os
import textwrap


def cps(s):
    return "[" + ", ".join(str(ord(c)) for c in s) + "]"


def coerce_source():
    import unyt.array as ua

    fn = inspect.unwrap(ua._coerce_iterable_units)
    t = ast.parse(textwrap.dedent(inspect.getsource(fn))).body[0]
    tests, loops, results = [], [], []
    for n in ast.walk(t):
        # the branch taken when the elements do not all carry the unit of the first one
        if isinstance(n, ast.If) and any(isinstance(b, ast.For) for b in n.body):
            tests.append(ast.unparse(n.test))
        if isinstance(n, ast.For):
            loops.append([ast.unparse(b) for b in n.body])
        if isinstance(n, ast.Assign) and getattr(n.targets[0], "id", None) == "ret" and isinstance(n.value, ast.Call) \
                and getattr(n.value.func, "id", None) == "unyt_array":
            results.append(ast.unparse(n))
    if len(tests) != 1 or len(loops) != 1:
        raise ValueError(f"_coerce_iterable_units: expected one conversion loop under one test, found {tests} / {loops}")
    return {"test": tests, "loop_body": loops[0], "results": results}


def initial_block():
    """`__array_ufunc__`: every `if` whose body assigns `kwargs["initial"]` — (test, body statements)"""
    import unyt.array as ua

    fn = inspect.unwrap(ua.unyt_array.__array_ufunc__)
    t = ast.parse(textwrap.dedent(inspect.getsource(fn))).body[0]
    out = []
    for n in ast.walk(t):
        if isinstance(n, ast.If) and any(
                isinstance(b, ast.Assign) and isinstance(b.targets[0], ast.Subscript)
                and getattr(b.targets[0].value, "id", None) == "kwargs"
                and getattr(b.targets[0].slice, "value", None) == "initial" for b in ast.walk(n)):
            if any(isinstance(b, ast.If) for b in n.body):
                continue  # an enclosing `if`: only the innermost one is the block
            out.append([ast.unparse(n.test), [ast.unparse(b) for b in n.body] + [ast.unparse(b) for b in n.orelse]])
    return out


def generate(X):
    cc = coerce_source()
    cc["initial_block"] = initial_block()
    text = (
        X.header()
        + "namespace Unyt.Generated\n\n"
        + "/-- array.py `_coerce_iterable_units`: test of the `if` that holds the conversion loop -/\n"
        + "def coerceTest : List (List Nat) := [" + ", ".join(cps(x) for x in cc["test"]) + "]\n\n"
        + "/-- array.py `_coerce_iterable_units`: the statements of `for datum in input_object:` -/\n"
        + "def coerceLoopBody : List (List Nat) := [" + ", ".join(cps(x) for x in cc["loop_body"]) + "]\n\n"
        + "/-- array.py `_coerce_iterable_units`: every `ret = unyt_array(...)` -/\n"
        + "def coerceResults : List (List Nat) := [" + ", ".join(cps(x) for x in cc["results"]) + "]\n\n"
        + "/-- array.py `__array_ufunc__`: the block that touches the start value of a reduction — (test, statements) -/\n"
        + "def initialBlock : List (List Nat × List (List Nat)) := ["
        + ", ".join(f"({cps(a)}, [" + ", ".join(cps(x) for x in b) + "])" for a, b in cc["initial_block"]) + "]\n\n"
        + "end Unyt.Generated\n"
    )
    X.write_if_changed(os.path.join(X.GEN, "TempSeqSrc.lean"), text)
    return cc
