"""Translator plugin for C07: regenerates lean/UnytModel/Generated/C07RuleMemo.lean — the KEY of every memoised unit
rule of the live unyt/array.py (`_unit_rule_cache` / `lru_cache`: `_multiply_units`, `_power_unit`, `_sqrt_unit`, …),
the memo that sits between the operand units and the label of every result on the ufunc path (operators, ufuncs, the
NumPy functions implemented through them).

Every callable of `unyt.array` that exposes `cache_info` is a memoised rule.  Its key is read off cache HITS AND
MISSES (never off results): after a first call on a unit `Unit(sym, registry=reg)`, is the call a miss on
  * the same symbol of the same registry object re-scaled in place (`UnitRegistry.modify`)      -> byScale
  * the same symbol, same scale, in another registry object of identical contents                -> byReg
  * another symbol of the same registry with the same scale and dimensions                       -> byExpr
Rows `⟨"unyt.array.<rule>", "rule", ⟨true, byReg, byExpr, byScale⟩⟩` of `UnytModel/LabelMemo.lean`.
"""
import inspect
import os
import sys
import warnings


def rule_arity(rule):
    f = getattr(rule, "__wrapped__", rule)
    ps = [p for p in inspect.signature(f).parameters.values() if p.default is p.empty]
    return len(ps), [p.name for p in inspect.signature(f).parameters.values()]


def rule_args(rule, u):
    n, names = rule_arity(rule)
    if "power" in names:
        return (u, 3)
    return (u,) * max(n, 1)


def live_rules():
    import unyt.array as UA

    return sorted((n, f) for n, f in vars(UA).items() if callable(f) and hasattr(f, "cache_info") and getattr(f, "__module__", "") == "unyt.array")


def probe_key(rule):
    import unyt
    import unyt.dimensions as D

    def reg():
        r = unyt.UnitRegistry(add_default_symbols=False)
        r.add("dimensionless", 1.0, D.dimensionless)
        r.add("zz_a", 4.0, D.length)
        r.add("zz_b", 4.0, D.length)
        return r

    def missed(u):
        before = rule.cache_info().misses
        rule(*rule_args(rule, u))
        return rule.cache_info().misses > before

    out = {}
    r1 = reg()
    rule.cache_clear()
    first = missed(unyt.Unit("zz_a", registry=r1))
    again = missed(unyt.Unit("zz_a", registry=r1))
    out["memo"] = first and not again
    out["byExpr"] = missed(unyt.Unit("zz_b", registry=r1))
    out["byReg"] = missed(unyt.Unit("zz_a", registry=reg()))
    r1.modify("zz_a", 64.0)
    out["byScale"] = missed(unyt.Unit("zz_a", registry=r1))
    rule.cache_clear()
    return out


def generate(X):
    warnings.simplefilter("ignore")
    harness = os.path.join(os.path.dirname(os.path.dirname(os.path.dirname(os.path.abspath(__file__)))), "harness")
    if harness not in sys.path:
        sys.path.insert(0, harness)
    rows = []
    for n, f in live_rules():
        try:
            k = probe_key(f)
        except Exception as e:  # noqa: BLE001
            k = {"memo": True, "byReg": False, "byExpr": False, "byScale": False, "error": repr(e)[:200]}
        rows.append(dict(func="unyt.array." + n, variant="rule", **k))
    L = X.lstr
    b = lambda v: "true" if v else "false"  # noqa: E731
    lines = [X.header("UnytModel.LabelMemo"), "namespace Unyt.Generated", "open Unyt.LabelMemo", "",
             "/-- the key of every memoised unit rule of the live unyt/array.py, read off cache hits and misses -/",
             "def ruleMemoRows : List MemoRow := ["]
    lines.append(",\n".join(f"  ⟨{L(r['func'])}, {L(r['variant'])}, ⟨{b(r['memo'])}, {b(r['byReg'])}, {b(r['byExpr'])}, {b(r['byScale'])}⟩⟩" for r in rows))
    lines += ["]", "", "end Unyt.Generated", ""]
    X.write_if_changed(os.path.join(X.GEN, "C07RuleMemo.lean"), "\n".join(lines))
    return {"rows": rows}
