"""C14 translator plugin: WHEN does a registry edit forget the prefixed entries that look-ups wrote back.

Regenerates `lean/UnytModel/Generated/C14RegCfg.lean` (`Unyt.Generated.C14.regCfg : NamesHist.Cfg`) from
the live `unyt.unit_registry.UnitRegistry` by probing each edit in each situation the model
distinguishes (`UnytModel/NamesHistoryC14.lean`): a sentinel prefixed symbol is looked up (so that it sits
in the table as a written-back entry), the edit is performed, and the sentinel is looked for in the table.

  add     2 x 4 situations: new entry prefixable? x the entry being replaced is
          absent | a user entry (non-prefixable) | a user entry (prefixable) | a written-back entry
  remove / modify  of a user symbol
  dump    `to_json()` and pickling of a quantity leave the written-back names out
  cache   `add` / `remove` / `modify` empty `_unit_object_cache` (`Unit(str, registry=reg)` is a new object
          afterwards); a loaded registry starts with an empty cache  ->  `regCacheCfg`

The source is also inspected (`ast`): is `self._forget_derived_symbols()` an unconditional statement of
`add` / `remove` / `modify`, before the table is touched?  The answer is the field
`forgetUnconditional`, which `Cfg.sound` requires besides the probes.
"""
import ast
import inspect
import json
import os
import pickle
import textwrap

SENTINEL = "kpc"
DERIVED_TARGET = "Mpc"
USER = "c14q"


def _registry_with(unyt, kind):
    from unyt.unit_registry import UnitRegistry
    import unyt.dimensions as D

    reg = UnitRegistry()
    if kind == 1:
        reg.add(USER, 2.0, D.length)
    elif kind == 2:
        reg.add(USER, 2.0, D.length, prefixable=True)
    reg[SENTINEL]  # written back
    if kind == 3:
        reg[DERIVED_TARGET]
    assert SENTINEL in reg.lut, "look-ups no longer write the derived entry back: the history model does not apply"
    return reg


def probe_add(unyt, new_prefixable, kind):
    import unyt.dimensions as D

    reg = _registry_with(unyt, kind)
    reg.add(DERIVED_TARGET if kind == 3 else USER, 3.0, D.length, prefixable=new_prefixable)
    return SENTINEL not in reg.lut


def probe_edit(unyt, which):
    reg = _registry_with(unyt, 1)
    if which == "remove":
        reg.remove(USER)
    else:
        reg.modify(USER, 5.0)
    return SENTINEL not in reg.lut


def probe_dump(unyt):
    from unyt import unyt_quantity

    reg = _registry_with(unyt, 1)
    in_json = SENTINEL in json.loads(reg.to_json())
    q = pickle.loads(pickle.dumps(unyt_quantity(1.0, USER, registry=reg)))
    in_pickle = SENTINEL in q.units.registry.lut
    return not in_json and not in_pickle


def probe_cache(unyt, which):
    """does the edit empty the string cache: is `Unit(str, registry=reg)` a NEW object afterwards?"""
    import unyt.dimensions as D
    from unyt import Unit

    reg = _registry_with(unyt, 1)
    u1 = Unit(SENTINEL, registry=reg)
    if which == "add":
        reg.add("c14r", 3.0, D.time)
    elif which == "remove":
        reg.remove(USER)
    elif which == "modify":
        reg.modify(USER, 5.0)
    else:
        from unyt import unyt_quantity

        r2 = type(reg).from_json(reg.to_json())
        r3 = pickle.loads(pickle.dumps(unyt_quantity(1.0, USER, registry=reg))).units.registry
        return not getattr(r2, "_unit_object_cache", {}) and SENTINEL not in getattr(r3, "_unit_object_cache", {})
    return Unit(SENTINEL, registry=reg) is not u1


def probe_copy(unyt):
    """a deep copy keeps the written-back entries flagged: an edit of the copy forgets them"""
    import copy

    reg = copy.deepcopy(_registry_with(unyt, 1))
    if SENTINEL not in reg.lut:
        return True, True  # the copy does not even hold them
    u_cached = SENTINEL in getattr(reg, "_unit_object_cache", {})
    reg.modify(USER, 5.0)
    return SENTINEL not in reg.lut, not u_cached


def unconditional_forget(cls, name):
    """is `self._forget_derived_symbols()` a top-level statement of the method, before any statement that
    mentions `self.lut`?"""
    try:
        src = textwrap.dedent(inspect.getsource(getattr(cls, name)))
        fn = ast.parse(src).body[0]
    except Exception:  # noqa: BLE001
        return False
    for st in fn.body:
        if (isinstance(st, ast.Expr) and isinstance(st.value, ast.Call) and isinstance(st.value.func, ast.Attribute)
                and st.value.func.attr == "_forget_derived_symbols" and not st.value.args):
            return True
        if any(isinstance(n, ast.Attribute) and n.attr == "lut" for n in ast.walk(st)):
            return False
    return False


def generate(X):
    import unyt
    from unyt.unit_registry import UnitRegistry

    src_ok = {m: unconditional_forget(UnitRegistry, m) for m in ("add", "remove", "modify")}
    add_probe = [probe_add(unyt, np_, k) for np_ in (False, True) for k in range(4)]
    add_tbl = [bool(b) for b in add_probe]
    rem = bool(probe_edit(unyt, "remove"))
    mod = bool(probe_edit(unyt, "modify"))
    uncond = all(src_ok.values())
    dump = bool(probe_dump(unyt))

    cache = {w: bool(probe_cache(unyt, w)) for w in ("add", "remove", "modify", "reload")}
    copy_flags, cache["copy"] = probe_copy(unyt)

    def lb(b):
        return "true" if b else "false"

    text = (
        X.header("UnytModel.NamesHistoryC14")
        + "namespace Unyt.Generated.C14\n\n"
        + "/-- when the live `UnitRegistry` forgets its written-back prefixed entries (probed + source inspected) -/\n"
        + "def regCfg : Unyt.NamesHist.Cfg :=\n"
        + "  { addTbl := [" + ", ".join(lb(b) for b in add_tbl) + "],\n"
        + f"    removeForgets := {lb(rem)}, modifyForgets := {lb(mod)}, dumpSkipsDerived := {lb(dump)},\n"
        + f"    forgetUnconditional := {lb(uncond)}, copyKeepsFlags := {lb(copy_flags)} }}\n\n"
        + "/-- which edits empty `_unit_object_cache` (probed: is `Unit(str, registry)` a new object afterwards) -/\n"
        + "def regCacheCfg : Unyt.NamesHist.CacheCfg :=\n"
        + f"  {{ addClears := {lb(cache['add'])}, removeClears := {lb(cache['remove'])}, modifyClears := {lb(cache['modify'])},\n"
        + f"    reloadEmpty := {lb(cache['reload'])}, copyEmpty := {lb(cache['copy'])} }}\n\n"
        + "end Unyt.Generated.C14\n"
    )
    X.write_if_changed(os.path.join(X.GEN, "C14RegCfg.lean"), text)
    return {"add_probe": add_probe, "source_unconditional": src_ok, "add_tbl": add_tbl, "remove": rem, "modify": mod, "dump": dump, "cache": cache, "copy_keeps_flags": copy_flags}
