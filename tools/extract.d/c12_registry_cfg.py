"""C12 translator plugin: which memo layers do `UnitRegistry.add/modify/remove` invalidate, and do they
do so UNCONDITIONALLY?

Regenerates `lean/UnytModel/Generated/RegistryC12Cfg.lean` (the configuration `Cfg` the C12 registry
state machine is run and proved with, plus the structural facts the proofs assume) from the LIVE source:

* behaviourally, one single edit at a time (never a history), over a MATRIX of prepared states ×
  edit forms: states differ in the kind of symbol edited (prefixable / non-prefixable with an offset),
  in the route that wrote the derived entry back (`Unit(...)`, `in`, `[]`), in what is cached (prefixed,
  compound, power, the symbol itself) and in whether the edited symbol is the one the derived entry
  hangs off; edit forms are add (new data / identical data), modify by float (new value / SAME value /
  int), modify by a quantity of this registry (new dimensions / same value and dimensions) or of the
  default registry, remove.  A flag is `true` only if EVERY cell of the matrix shows the behaviour;
* syntactically (`ast`), as an OBLIGATION (`registryEditsUnconditional`, decided by the kernel in
  `active_step_assumptions`): in each of add / modify / remove the memo reset and the purge of the derived
  entries are top-level statements that precede every use of `self.lut`, every write of the table is a
  top-level statement followed by a top-level `self._unit_object_cache.clear()`, there is no `return`
  (no early exit past the clear), every `in_base` call is followed by a memo reset in its block; the
  purge helper deletes every recorded key; `_lookup_unit_symbol` records the key it writes back and all
  three callers hand it the registry's set.  An invalidation placed under a condition (e.g. "only when
  the value changed") makes the obligation false even if no probe of the matrix happens to hit it.
  Anything the pass does not recognise counts as not established (fails closed).
"""
import ast
import os


# ----------------------------------------------------------------------------------------------
# behavioural matrix


def _probe(unyt):
    from unyt import Unit, unyt_quantity
    from unyt.unit_registry import UnitRegistry
    import unyt.dimensions as D

    def base():
        r = UnitRegistry()
        r.add("vfoo", 2.0, D.length, prefixable=True)
        r.add("vbar", 4.0, D.temperature, offset=1.5)
        return r

    def s_unit_route():
        r = base()
        Unit("kvfoo", registry=r)
        Unit("vfoo*s", registry=r)
        return r, "vfoo"

    def s_contains_route():
        r = base()
        assert "kvfoo" in r
        Unit("vfoo**2", registry=r)
        Unit("kvfoo/s", registry=r)
        return r, "vfoo"

    def s_getitem_route():
        r = base()
        r["Mvfoo"]
        Unit("vfoo", registry=r)
        return r, "vfoo"

    def s_other_symbol():
        # the edited symbol is NOT the one the derived entry hangs off, is not prefixable and has an offset
        r = base()
        Unit("vbar", registry=r)
        Unit("kvfoo", registry=r)
        Unit("vbar*vfoo", registry=r)
        return r, "vbar"

    states = {"unit-route": s_unit_route, "contains-route": s_contains_route,
              "getitem-route": s_getitem_route, "other-symbol-offset": s_other_symbol}

    def cur(r, sym):
        return r.lut[sym]

    edits = {
        "add-new-data": lambda r, s: r.add(s, 5.0, D.time, prefixable=False),
        "add-identical": lambda r, s: r.add(s, cur(r, s)[0], cur(r, s)[1], offset=cur(r, s)[2] or None, prefixable=cur(r, s)[4]),
        "modify-float": lambda r, s: r.modify(s, 3.0),
        "modify-float-same-value": lambda r, s: r.modify(s, cur(r, s)[0]),
        "modify-int": lambda r, s: r.modify(s, 6),
        "modify-quantity-own-new-dimensions": lambda r, s: r.modify(s, unyt_quantity(3.0, "km/s", registry=r)),
        "modify-quantity-own-same-value": lambda r, s: r.modify(s, unyt_quantity(cur(r, s)[0], "m" if s == "vfoo" else "K", registry=r)),
        "modify-quantity-own-same-value-new-dimensions": lambda r, s: r.modify(s, unyt_quantity(cur(r, s)[0], "s", registry=r)),
        "modify-quantity-default-registry": lambda r, s: r.modify(s, unyt_quantity(3.0, "km")),
        "remove": lambda r, s: r.remove(s),
    }
    cells = {}
    for sn, mk in states.items():
        for en, f in edits.items():
            r, sym = mk()
            cached = set(r._unit_object_cache)
            derived = {k for k in r.lut if k in ("kvfoo", "Mvfoo")}
            assert cached and derived, (sn, cached, derived)
            r.unit_system_id  # fill the memo: the edit has to reset it
            assert r._unit_system_id is not None
            import copy as _copy

            twin = _copy.copy(r)  # what Unit.copy() makes: it must stay attached to the same containers
            try:
                f(r, sym)
                raised = None
            except Exception as e:  # noqa: BLE001
                raised = type(e).__name__
            cells[f"{sn}|{en}"] = {
                "raised": raised,
                "cache_cleared": not (cached & set(r._unit_object_cache)),
                "derived_purged": not (derived & set(r.lut)),
                "memo_reset": r._unit_system_id is None,
                "derived_in_place": twin._derived_symbols is r._derived_symbols,
                "cache_in_place": twin._unit_object_cache is r._unit_object_cache,
                "lut_in_place": twin.lut is r.lut,
            }
    ra = base()
    ida = ra.unit_system_id
    rb = base()
    Unit("kvfoo", registry=rb)
    idb = rb.unit_system_id
    return cells, ida == idb


def _probe_copy(unyt):
    """does `Unit.copy()` hand out a registry object attached to the SAME table / string cache / derived set?
    (a unit built from a sympy expression: its string is not in the string cache, so `copy()` is not
    short-circuited by the cache hit in `Unit.__new__`)"""
    import sympy
    from unyt import Unit
    from unyt.unit_registry import UnitRegistry

    r = UnitRegistry()
    c = Unit(sympy.Symbol("s"), registry=r).copy().registry
    return {"distinct_object": c is not r, "lut": c.lut is r.lut, "cache": c._unit_object_cache is r._unit_object_cache,
            "derived": c._derived_symbols is r._derived_symbols}


def _rebinds(cls):
    """(ast) the methods of `UnitRegistry`, other than the constructors of a NEW object, that assign
    `self.lut`, `self._unit_object_cache` or `self._derived_symbols` (also as part of a tuple target, an
    augmented or annotated assignment, a `del`, a `setattr`/`__dict__` access): a rebound container
    separates the shallow copies `Unit.copy()` makes"""
    names = ("lut", "_unit_object_cache", "_derived_symbols")
    out = []
    for fn in cls.body:
        if not isinstance(fn, (ast.FunctionDef, ast.AsyncFunctionDef)) or fn.name in ("__init__", "__setstate__"):
            continue
        parents = {id(ch): n for n in ast.walk(fn) for ch in ast.iter_child_nodes(n)}
        for n in ast.walk(fn):
            tg = []
            if isinstance(n, ast.Assign):
                tg = n.targets
            elif isinstance(n, (ast.AugAssign, ast.AnnAssign)):
                tg = [n.target]
            elif isinstance(n, ast.Delete):
                tg = n.targets
            elif isinstance(n, (ast.For, ast.comprehension)):
                tg = [n.target]
            elif isinstance(n, ast.withitem) and n.optional_vars is not None:
                tg = [n.optional_vars]
            elif isinstance(n, ast.NamedExpr):
                tg = [n.target]
            for t in tg:
                for m in ast.walk(t):
                    if isinstance(m, ast.Attribute) and any(_is_self_attr(m, a) for a in names) and not any(
                            isinstance(p, ast.Subscript) and p.value is m for p in ast.walk(t)):
                        out.append(f"{fn.name}: assigns self.{m.attr}")
            if isinstance(n, ast.Call) and isinstance(n.func, ast.Name) and n.func.id in ("setattr", "delattr", "vars"):
                if n.args and isinstance(n.args[0], ast.Name) and n.args[0].id == "self":
                    out.append(f"{fn.name}: {n.func.id}(self, ...)")
            if isinstance(n, ast.Attribute) and n.attr == "__dict__" and isinstance(n.value, ast.Name) and n.value.id == "self":
                par = parents.get(id(n))
                harmless = (isinstance(par, ast.Attribute) and par.attr == "get") or (
                    isinstance(par, ast.Subscript) and par.value is n and isinstance(par.slice, ast.Constant)
                    and isinstance(par.slice.value, str) and par.slice.value not in names)
                if not harmless:
                    out.append(f"{fn.name}: self.__dict__")
    return out


# ----------------------------------------------------------------------------------------------
# ast obligation


def _is_self_attr(n, attr):
    return isinstance(n, ast.Attribute) and n.attr == attr and isinstance(n.value, ast.Name) and n.value.id == "self"


def _mentions_lut(n):
    return any(_is_self_attr(m, "lut") for m in ast.walk(n))


def _is_memo_reset(st):
    return (isinstance(st, ast.Assign) and len(st.targets) == 1 and _is_self_attr(st.targets[0], "_unit_system_id")
            and isinstance(st.value, ast.Constant) and st.value.value is None)


def _is_cache_clear(st):
    if isinstance(st, ast.Expr) and isinstance(st.value, ast.Call) and isinstance(st.value.func, ast.Attribute):
        f = st.value.func
        return f.attr == "clear" and _is_self_attr(f.value, "_unit_object_cache") and not st.value.args
    if isinstance(st, ast.Assign) and len(st.targets) == 1 and _is_self_attr(st.targets[0], "_unit_object_cache"):
        return isinstance(st.value, ast.Dict) and not st.value.keys
    return False


def _is_lut_write(st):
    if isinstance(st, (ast.Assign, ast.AugAssign)):
        tg = st.targets if isinstance(st, ast.Assign) else [st.target]
        return any(isinstance(t, ast.Subscript) and _is_self_attr(t.value, "lut") for t in tg)
    if isinstance(st, ast.Delete):
        return any(isinstance(t, ast.Subscript) and _is_self_attr(t.value, "lut") for t in st.targets)
    if isinstance(st, ast.Expr) and isinstance(st.value, ast.Call) and isinstance(st.value.func, ast.Attribute):
        f = st.value.func
        return _is_self_attr(f.value, "lut") and f.attr in ("pop", "update", "clear", "setdefault", "popitem", "__setitem__", "__delitem__")
    return False


def _purge_helper_ok(fn):
    """`for k in self._derived_symbols: self.lut.pop(k, None)` + `self._derived_symbols.clear()`, at most under
    the single guard `if self._derived_symbols:`"""
    body = [s for s in fn.body if not (isinstance(s, ast.Expr) and isinstance(s.value, ast.Constant))]
    if len(body) == 1 and isinstance(body[0], ast.If) and _is_self_attr(body[0].test, "_derived_symbols") and not body[0].orelse:
        body = body[0].body
    loop = [s for s in body if isinstance(s, ast.For)]
    if len(loop) != 1 or not _is_self_attr(loop[0].iter, "_derived_symbols") and not (
            isinstance(loop[0].iter, ast.Call) and any(_is_self_attr(a, "_derived_symbols") for a in loop[0].iter.args)):
        return False
    lb = loop[0].body
    if len(lb) != 1 or not (_is_lut_write(lb[0]) and not isinstance(lb[0], (ast.Assign, ast.AugAssign))):
        return False
    tail = body[body.index(loop[0]) + 1:]
    cleared = any(isinstance(s, ast.Expr) and isinstance(s.value, ast.Call) and isinstance(s.value.func, ast.Attribute)
                  and s.value.func.attr == "clear" and _is_self_attr(s.value.func.value, "_derived_symbols") for s in tail) or any(
        isinstance(s, ast.Assign) and _is_self_attr(s.targets[0], "_derived_symbols") for s in tail)
    return cleared and all(isinstance(s, (ast.For, ast.Expr, ast.Assign)) for s in body)


def _edit_method_facts(fn, methods):
    why = []
    body = [s for s in fn.body if not (isinstance(s, ast.Expr) and isinstance(s.value, ast.Constant))
            and not isinstance(s, (ast.Import, ast.ImportFrom))]
    if any(isinstance(n, (ast.Return, ast.Try, ast.With, ast.While)) for n in ast.walk(fn)):
        why.append("return/try/with/while inside the method")

    def is_purge(st):
        if isinstance(st, ast.Expr) and isinstance(st.value, ast.Call) and isinstance(st.value.func, ast.Attribute):
            f = st.value.func
            if isinstance(f.value, ast.Name) and f.value.id == "self" and f.attr in methods and not st.value.args:
                return _purge_helper_ok(methods[f.attr])
        return False

    first_lut = next((i for i, s in enumerate(body) if _mentions_lut(s)), len(body))
    resets = [i for i, s in enumerate(body) if _is_memo_reset(s)]
    purges = [i for i, s in enumerate(body) if is_purge(s)]
    if not resets or resets[0] > first_lut:
        why.append("no top-level memo reset before the first use of self.lut")
    if not purges or purges[0] > first_lut:
        why.append("no top-level purge of the derived entries before the first use of self.lut")
    # every write of the table is a top-level statement, and a top-level cache clear follows the last one
    top_writes = [i for i, s in enumerate(body) if _is_lut_write(s)]
    all_writes = [n for n in ast.walk(fn) if isinstance(n, ast.stmt) and _is_lut_write(n)]
    if len(all_writes) != len(top_writes) or not top_writes:
        why.append("a write of self.lut is nested in a compound statement (or there is none)")
    clears = [i for i, s in enumerate(body) if _is_cache_clear(s)]
    if not clears or not top_writes or clears[-1] < top_writes[-1]:
        why.append("no top-level _unit_object_cache.clear() after the last write of self.lut")
    # anything that can refill the memo (in_base hashes a unit of this registry) is followed by a reset in its block
    for blk in [body] + [b for n in ast.walk(fn) if isinstance(n, ast.If) for b in (n.body, n.orelse)]:
        for i, s in enumerate(blk):
            own = [m for m in ast.walk(s) if isinstance(m, ast.Call) and isinstance(m.func, ast.Attribute) and m.func.attr.startswith("in_")]
            if own and not isinstance(s, ast.If) and not any(_is_memo_reset(t) for t in blk[i + 1:]):
                why.append("a call of in_base()/in_units() is not followed by a memo reset in its block")
    return why


def _ast_facts(repo):
    reg = ast.parse(open(os.path.join(repo, "unyt", "unit_registry.py"), encoding="utf-8").read())
    obj = ast.parse(open(os.path.join(repo, "unyt", "unit_object.py"), encoding="utf-8").read())
    cls = next(n for n in reg.body if isinstance(n, ast.ClassDef) and n.name == "UnitRegistry")
    methods = {n.name: n for n in cls.body if isinstance(n, ast.FunctionDef)}
    out = {}
    for name in ("add", "modify", "remove"):
        out[name] = _edit_method_facts(methods[name], methods)
    # _lookup_unit_symbol: the write-back is recorded
    look = next(n for n in reg.body if isinstance(n, ast.FunctionDef) and n.name == "_lookup_unit_symbol")
    wb = rec = False
    for blk in [n.body for n in ast.walk(look) if hasattr(n, "body") and isinstance(getattr(n, "body"), list)]:
        for i, s in enumerate(blk):
            if isinstance(s, ast.Assign) and any(isinstance(t, ast.Subscript) and isinstance(t.value, ast.Name)
                                                 and t.value.id == look.args.args[1].arg for t in s.targets):
                wb = True
                third = look.args.args[2].arg if len(look.args.args) > 2 else None
                for t in blk[i + 1:]:
                    for m in ast.walk(t):
                        if (third and isinstance(m, ast.Call) and isinstance(m.func, ast.Attribute) and m.func.attr == "add"
                                and isinstance(m.func.value, ast.Name) and m.func.value.id == third):
                            rec = True
    out["_lookup_unit_symbol_writes_back"] = wb
    out["_lookup_unit_symbol_records"] = rec

    # the three callers hand over the registry's set
    def third_arg_is_set(call, owner):
        return len(call.args) >= 3 and isinstance(call.args[2], ast.Attribute) and call.args[2].attr == "_derived_symbols" \
            and isinstance(call.args[2].value, ast.Name) and call.args[2].value.id == owner

    callers = []
    for mname in ("__getitem__", "__contains__"):
        calls = [m for m in ast.walk(methods[mname]) if isinstance(m, ast.Call) and isinstance(m.func, ast.Name)
                 and m.func.id == "_lookup_unit_symbol"]
        callers.append(bool(calls) and all(third_arg_is_set(c, "self") for c in calls))
    ucls = next(n for n in obj.body if isinstance(n, ast.ClassDef) and n.name == "Unit")
    new = next(n for n in ucls.body if isinstance(n, ast.FunctionDef) and n.name == "__new__")
    calls = [m for m in ast.walk(new) if isinstance(m, ast.Call) and isinstance(m.func, ast.Name) and m.func.id == "_get_unit_data_from_expr"]
    callers.append(bool(calls) and all(third_arg_is_set(c, "registry") for c in calls))
    gud = next(n for n in obj.body if isinstance(n, ast.FunctionDef) and n.name == "_get_unit_data_from_expr")
    third = gud.args.args[2].arg if len(gud.args.args) > 2 else None
    inner = [m for m in ast.walk(gud) if isinstance(m, ast.Call) and isinstance(m.func, ast.Name)
             and m.func.id in ("_get_unit_data_from_expr", "_lookup_unit_symbol")]
    callers.append(bool(third) and bool(inner) and all(
        len(c.args) >= 3 and isinstance(c.args[2], ast.Name) and c.args[2].id == third for c in inner))
    out["callers_pass_the_set"] = all(callers)
    out["rebinds"] = _rebinds(cls)
    return out


def generate(X):
    import unyt

    cells, id_skips = _probe(unyt)
    # an edit that raised (a refused edit) tells nothing about the invalidation
    ran = {k: v for k, v in cells.items() if v["raised"] is None}
    clear = bool(ran) and all(v["cache_cleared"] for v in ran.values())
    purge = all(v["derived_purged"] for v in cells.values())
    memo = all(v["memo_reset"] for k, v in cells.items() if "modify-quantity-own" not in k)
    memo_last = all(v["memo_reset"] for k, v in ran.items() if "modify-quantity-own" in k)
    facts = _ast_facts(X.REPO)
    unconditional = (not facts["add"] and not facts["modify"] and not facts["remove"]
                     and facts["_lookup_unit_symbol_records"] and facts["callers_pass_the_set"])
    b = lambda x: "true" if x else "false"  # noqa: E731
    d_in_place = all(v["derived_in_place"] for v in cells.values())
    c_in_place = all(v["cache_in_place"] for v in cells.values())
    l_in_place = all(v["lut_in_place"] for v in cells.values())
    cp = _probe_copy(unyt)
    never_rebound = not facts["rebinds"] and l_in_place
    atext = (
        X.header("UnytModel.RegistryC12Alias")
        + "namespace Unyt.Generated\n\n"
        + "/-- do `add` / `modify` / `remove` empty `_derived_symbols` and `_unit_object_cache` IN PLACE (a shallow\n"
        + "    copy of the registry made before the edit is still attached to the same set / dict after it — every\n"
        + "    cell of the probe matrix of tools/extract.d/c12_registry_cfg.py, refused edits included) -/\n"
        + f"def registryACfg : Unyt.RegC12.ACfg := ⟨{b(d_in_place)}, {b(c_in_place)}⟩\n\n"
        + "/-- (ast + probes) no method of `UnitRegistry` other than `__init__` / `__setstate__` assigns `self.lut`,\n"
        + "    `self._unit_object_cache` or `self._derived_symbols`, and no probe saw the table rebound -/\n"
        + f"def registryContainersNeverRebound : Bool := {b(never_rebound)}\n\n"
        + "/-- `Unit.copy()` returns a unit on a NEW registry object attached to the same table, cache and set -/\n"
        + f"def unitCopyShares : Bool := {b(all(cp.values()))}\n\n"
        + "end Unyt.Generated\n"
    )
    X.write_if_changed(os.path.join(X.GEN, "RegistryC12Alias.lean"), atext)
    text = (
        X.header("UnytModel.RegistryC12")
        + "namespace Unyt.Generated\n\n"
        + "/-- which memo layers `UnitRegistry.add/modify/remove` invalidate in the live source, and whether\n"
        + "    `unit_system_id` skips written-back entries (a matrix of single-edit probes, see\n"
        + "    tools/extract.d/c12_registry_cfg.py): `⟨clearCache, purgeDerived, idSkipsDerived, memoResetLast⟩` -/\n"
        + f"def registryCfg : Unyt.RegC12.Cfg := ⟨{b(clear)}, {b(purge)}, {b(id_skips)}, {b(memo_last)}⟩\n\n"
        + "/-- every edit form of the probe matrix leaves the `unit_system_id` memo reset (`invalidate`) -/\n"
        + f"def registryEditsResetMemo : Bool := {b(memo)}\n\n"
        + "/-- `_lookup_unit_symbol` writes the derived prefixed entry back into the table (ast) -/\n"
        + f"def lookupWritesBack : Bool := {b(facts['_lookup_unit_symbol_writes_back'])}\n\n"
        + "/-- (ast) in add / modify / remove the memo reset and the purge are top-level statements before any use\n"
        + "    of the table, every table write is top-level and followed by a top-level cache clear, no early exit,\n"
        + "    `in_base` is followed by a memo reset; the write-back is recorded and every caller passes the set -/\n"
        + f"def registryEditsUnconditional : Bool := {b(unconditional)}\n\n"
        + "end Unyt.Generated\n"
    )
    X.write_if_changed(os.path.join(X.GEN, "RegistryC12Cfg.lean"), text)
    bad = {k: v for k, v in cells.items() if not (v["derived_purged"] and v["memo_reset"] and (v["cache_cleared"] or v["raised"]))}
    return {
        "cfg": {"clearCache": clear, "purgeDerived": purge, "idSkipsDerived": id_skips, "memoResetLast": memo_last},
        "memo_reset": memo,
        "unconditional": unconditional,
        "acfg": {"derivedInPlace": d_in_place, "cacheInPlace": c_in_place},
        "containers_never_rebound": never_rebound,
        "unit_copy": cp,
        "probe_cells": len(cells),
        "probe_cells_not_invalidating": bad,
        "ast": facts,
    }
