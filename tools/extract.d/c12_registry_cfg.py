"""C12 translator plugin: which memo layers do `UnitRegistry.add/modify/remove` invalidate?

Regenerates `lean/UnytModel/Generated/RegistryC12Cfg.lean` (the configuration `Cfg` the C12
registry state machine is run and proved with) from the LIVE source:

* behaviourally, one single step at a time (never a history): after a look-up of a prefixed
  and of a compound string, does each kind of edit leave those strings in
  `_unit_object_cache`, does it leave the written-back prefixed entry in `lut`, and does
  `unit_system_id` depend on written-back entries;
* syntactically (`ast`), which of the three edit methods contain a statement that clears
  `_unit_object_cache` / deletes from `lut` in a loop (directly or through a `self.<helper>()`);
  recorded for the notes and cross-checked against the behavioural answer.

A flag is `true` only when every edit kind shows the repaired behaviour; a half-applied fix
keeps the flag `false`, the model then no longer matches the code and the correspondence run
says so.
"""
import ast
import os


def _probe(unyt):
    from unyt import Unit, unyt_quantity
    from unyt.unit_registry import UnitRegistry
    import unyt.dimensions as D

    def prepared():
        r = UnitRegistry()
        r.add("vfoo", 2.0, D.length, prefixable=True)
        Unit("kvfoo", registry=r)
        Unit("vfoo*s", registry=r)
        assert "kvfoo" in r.lut and "kvfoo" in r._unit_object_cache and "vfoo*s" in r._unit_object_cache
        return r

    edits = {
        "add": lambda r: r.add("vfoo", 5.0, D.time, prefixable=False),
        "modify_float": lambda r: r.modify("vfoo", 3.0),
        "modify_quantity": lambda r: r.modify("vfoo", unyt_quantity(3.0, "km", registry=r)),
        "remove": lambda r: r.remove("vfoo"),
    }
    per = {}
    for name, f in edits.items():
        r = prepared()
        f(r)
        per[name] = {
            "cache_cleared": ("kvfoo" not in r._unit_object_cache) and ("vfoo*s" not in r._unit_object_cache),
            "derived_purged": "kvfoo" not in r.lut,
            "memo_reset": r._unit_system_id is None,
        }
    ra = UnitRegistry()
    ra.add("vfoo", 2.0, D.length, prefixable=True)
    ida = ra.unit_system_id
    rb = UnitRegistry()
    rb.add("vfoo", 2.0, D.length, prefixable=True)
    Unit("kvfoo", registry=rb)
    idb = rb.unit_system_id
    return per, ida == idb


def _ast_facts(repo):
    src = open(os.path.join(repo, "unyt", "unit_registry.py"), encoding="utf-8").read()
    tree = ast.parse(src)
    cls = next(n for n in tree.body if isinstance(n, ast.ClassDef) and n.name == "UnitRegistry")
    methods = {n.name: n for n in cls.body if isinstance(n, ast.FunctionDef)}

    def clears_cache(fn, depth=0):
        for n in ast.walk(fn):
            if isinstance(n, ast.Call) and isinstance(n.func, ast.Attribute):
                f = n.func
                if f.attr == "clear" and isinstance(f.value, ast.Attribute) and f.value.attr == "_unit_object_cache":
                    return True
                if depth < 2 and isinstance(f.value, ast.Name) and f.value.id == "self" and f.attr in methods and methods[f.attr] is not fn:
                    if clears_cache(methods[f.attr], depth + 1):
                        return True
            if isinstance(n, ast.Assign):
                for t in n.targets:
                    if isinstance(t, ast.Attribute) and t.attr == "_unit_object_cache" and isinstance(n.value, ast.Dict) and fn.name != "__init__":
                        return True
        return False

    def purges_in_loop(fn, depth=0):
        for n in ast.walk(fn):
            if isinstance(n, (ast.For, ast.While)):
                for m in ast.walk(n):
                    if isinstance(m, ast.Delete) and any(
                        isinstance(t, ast.Subscript) and isinstance(t.value, ast.Attribute) and t.value.attr == "lut" for t in m.targets):
                        return True
                    if isinstance(m, ast.Call) and isinstance(m.func, ast.Attribute) and m.func.attr == "pop" and isinstance(m.func.value, ast.Attribute) and m.func.value.attr == "lut":
                        return True
            if depth < 2 and isinstance(n, ast.Call) and isinstance(n.func, ast.Attribute) and isinstance(n.func.value, ast.Name) \
                    and n.func.value.id == "self" and n.func.attr in methods and methods[n.func.attr] is not fn:
                if purges_in_loop(methods[n.func.attr], depth + 1):
                    return True
        return False

    out = {}
    for name in ("add", "modify", "remove"):
        fn = methods[name]
        out[name] = {"clears_cache": clears_cache(fn), "purges_derived_in_loop": purges_in_loop(fn)}
    # does _lookup_unit_symbol still write the derived entry back into the table it was handed?
    look = next(n for n in tree.body if isinstance(n, ast.FunctionDef) and n.name == "_lookup_unit_symbol")
    wb = False
    for n in ast.walk(look):
        if isinstance(n, ast.Assign):
            for t in n.targets:
                if isinstance(t, ast.Subscript) and isinstance(t.value, ast.Name) and t.value.id == "unit_symbol_lut":
                    wb = True
    out["_lookup_unit_symbol_writes_back"] = wb
    return out


def generate(X):
    import unyt

    per, id_skips = _probe(unyt)
    clear = all(v["cache_cleared"] for v in per.values())
    purge = all(v["derived_purged"] for v in per.values())
    # the memo must be reset by every edit; for `modify(sym, quantity-of-this-registry)` the
    # present code resets it BEFORE `in_base` recomputes it from the old table (flag memoResetLast)
    memo = all(v["memo_reset"] for k, v in per.items() if k != "modify_quantity")
    memo_last = per["modify_quantity"]["memo_reset"]
    facts = _ast_facts(X.REPO)
    ast_clear = all(facts[m]["clears_cache"] for m in ("add", "modify", "remove"))
    b = lambda x: "true" if x else "false"  # noqa: E731
    text = (
        X.header("UnytModel.RegistryC12")
        + "namespace Unyt.Generated\n\n"
        + "/-- which memo layers `UnitRegistry.add/modify/remove` invalidate in the live source, and whether\n"
        + "    `unit_system_id` skips written-back entries (single-step probes + `ast`, see\n"
        + "    tools/extract.d/c12_registry_cfg.py): `⟨clearCache, purgeDerived, idSkipsDerived, memoResetLast⟩` -/\n"
        + f"def registryCfg : Unyt.RegC12.Cfg := ⟨{b(clear)}, {b(purge)}, {b(id_skips)}, {b(memo_last)}⟩\n\n"
        + "/-- `add`, `modify(sym, float)`, `remove` leave the `unit_system_id` memo reset (`invalidate`) -/\n"
        + f"def registryEditsResetMemo : Bool := {b(memo)}\n\n"
        + "/-- `_lookup_unit_symbol` writes the derived prefixed entry back into the table (ast) -/\n"
        + f"def lookupWritesBack : Bool := {b(facts['_lookup_unit_symbol_writes_back'])}\n\n"
        + "end Unyt.Generated\n"
    )
    X.write_if_changed(os.path.join(X.GEN, "RegistryC12Cfg.lean"), text)
    return {
        "cfg": {"clearCache": clear, "purgeDerived": purge, "idSkipsDerived": id_skips, "memoResetLast": memo_last},
        "memo_reset": memo,
        "per_edit": per,
        "ast": facts,
        "ast_agrees_on_cache_clear": ast_clear == clear,
    }
