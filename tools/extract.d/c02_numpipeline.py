"""C02 translator plugin: the number pipeline of the unit-string parser, from the live source.

  unyt/_parsing.py             unit_text_transform (which token transformations run, in order)
  <the transformation that handles NUMBER tokens>   (sympy.parsing.sympy_parser.auto_number today)
        the test that decides between the decimal-string constructor and the integer constructor,
        translated from its AST into a Lean Boolean function of the token's characters
  sympy rationalize            the rename Float -> Rational (AST)

-> lean/UnytModel/Generated/C02NumPipeline.lean
     c02Transforms, c02FloatCtor, c02IntCtor, c02AutoNumberIsFloat : List Char -> Bool
`UnytProofs/C02Num.lean` proves that the regenerated test IS the test of the model
(`autoNumber_test_is_live`) and that the constructors are the modelled ones (`number_pipeline_is_modelled`).
A test this translator cannot read (another operator, another call) raises: the translation of C02 is
then reported broken and the failing-input search runs.
"""
import ast
import inspect
import os
import textwrap


def _is_number_test(t):
    """`toknum == NUMBER` / `tokNum == token.NUMBER`"""
    if not (isinstance(t, ast.Compare) and len(t.ops) == 1 and isinstance(t.ops[0], ast.Eq) and isinstance(t.left, ast.Name)):
        return False
    c = t.comparators[0]
    return (isinstance(c, ast.Name) and c.id == "NUMBER") or (isinstance(c, ast.Attribute) and c.attr == "NUMBER")


def _has_in_test(t):
    return any(isinstance(n, ast.Compare) and any(isinstance(o, ast.In) for o in n.ops) for n in ast.walk(t))


def _lchar(c):
    if len(c) != 1:
        raise ValueError(f"membership test for a string of length {len(c)}: {c!r}")
    return f"(Char.ofNat {ord(c)})"


def _lchars(s):
    return "[" + ", ".join(f"Char.ofNat {ord(c)}" for c in s) + "]"


def _translate(node, env, depth=0):
    """AST of the class test -> Lean Bool term over `cs` (the token's characters)"""
    if depth > 20:
        raise ValueError("class test: substitution does not terminate")
    if isinstance(node, ast.BoolOp):
        op = " || " if isinstance(node.op, ast.Or) else " && "
        return "(" + op.join(_translate(v, env, depth) for v in node.values) + ")"
    if isinstance(node, ast.UnaryOp) and isinstance(node.op, ast.Not):
        return "(!" + _translate(node.operand, env, depth) + ")"
    if isinstance(node, ast.Compare) and len(node.ops) == 1 and isinstance(node.ops[0], ast.In) \
            and isinstance(node.left, ast.Constant) and isinstance(node.left.value, str) and isinstance(node.comparators[0], ast.Name):
        return f"hasChar {_lchar(node.left.value)} cs"
    if isinstance(node, ast.Call) and isinstance(node.func, ast.Attribute) and node.func.attr == "startswith" \
            and isinstance(node.func.value, ast.Name) and len(node.args) == 1 and not node.keywords:
        a = node.args[0]
        items = a.elts if isinstance(a, ast.Tuple) else [a]
        if not all(isinstance(i, ast.Constant) and isinstance(i.value, str) for i in items):
            raise ValueError(f"startswith of something that is not a string constant: {ast.dump(a)}")
        return "startsWithAny [" + ", ".join(_lchars(i.value) for i in items) + "] cs"
    if isinstance(node, ast.Name) and node.id in env:
        return _translate(env[node.id], env, depth + 1)
    raise ValueError(f"class test of the NUMBER transformation: construct this translator does not know: {ast.unparse(node)}")


CTORS = ("Float", "Integer", "Rational")


def _ctor(stmts):
    names = [n.value for st in stmts for n in ast.walk(st) if isinstance(n, ast.Constant) and n.value in CTORS]
    if len(set(names)) != 1:
        raise ValueError(f"a branch of the NUMBER transformation names the constructors {names}")
    return names[0]


def _number_handler(fn):
    """(class-test AST, env of simple local assignments, ctor when true, ctor when false) of a token
    transformation, or None when it has no `== NUMBER` branch with a membership test"""
    tree = ast.parse(textwrap.dedent(inspect.getsource(fn)))
    for node in ast.walk(tree):
        if isinstance(node, ast.If) and _is_number_test(node.test):
            env = {}
            for st in node.body:
                if isinstance(st, ast.Assign) and len(st.targets) == 1 and isinstance(st.targets[0], ast.Name):
                    env.setdefault(st.targets[0].id, st.value)
            inner = [st for st in node.body if isinstance(st, ast.If) and _has_in_test(st.test)]
            if len(inner) != 1:
                raise ValueError(f"{fn.__name__}: {len(inner)} membership-test branches under `== NUMBER`")
            return inner[0].test, env, _ctor(inner[0].body), _ctor(inner[0].orelse)
    return None


def _renames(fn):
    """`if tokval == 'A': … tokval = 'B'` of a transformation (sympy's rationalize): {A: B}"""
    out = {}
    tree = ast.parse(textwrap.dedent(inspect.getsource(fn)))
    for node in ast.walk(tree):
        if isinstance(node, ast.If) and isinstance(node.test, ast.Compare) and len(node.test.ops) == 1 and isinstance(node.test.ops[0], ast.Eq) \
                and isinstance(node.test.comparators[0], ast.Constant) and node.test.comparators[0].value in CTORS:
            for st in node.body:
                if isinstance(st, ast.Assign) and isinstance(st.value, ast.Constant) and st.value.value in CTORS:
                    out[node.test.comparators[0].value] = st.value.value
    return out


def generate(X):
    from unyt import _parsing

    tr = list(_parsing.unit_text_transform)
    names = [f"{getattr(f, '__module__', '?')}.{getattr(f, '__name__', repr(f))}" for f in tr]
    handler = None
    float_ctor = int_ctor = None
    for i, f in enumerate(tr):
        h = _number_handler(f)
        if h is None:
            continue
        if handler is not None:
            raise ValueError("two transformations of unit_text_transform handle NUMBER tokens")
        handler = (i, h)
    if handler is None:
        raise ValueError("no transformation of unit_text_transform handles NUMBER tokens")
    i, (test, env, float_ctor, int_ctor) = handler
    term = _translate(test, env)
    for f in tr[i + 1:]:          # later passes may rename the constructor (rationalize: Float -> Rational)
        ren = _renames(f)
        float_ctor = ren.get(float_ctor, float_ctor)
        int_ctor = ren.get(int_ctor, int_ctor)
    L = X.lstr
    text = (
        X.header("UnytModel.NumLitC02")
        + "namespace Unyt.Generated\nopen Unyt.NumLit\n\n"
        + "/-- `unyt._parsing.unit_text_transform`, in order -/\n"
        + "def c02Transforms : List String := [" + ", ".join(L(n) for n in names) + "]\n\n"
        + "/-- the constructor a NUMBER token ends up in when the class test holds / does not hold\n"
        + "    (after the renames of the later passes) -/\n"
        + f"def c02FloatCtor : String := {L(float_ctor)}\n"
        + f"def c02IntCtor : String := {L(int_ctor)}\n\n"
        + f"/-- the class test of `{names[i]}`: `{ast.unparse(test)}` -/\n"
        + f"def c02AutoNumberIsFloat (cs : List Char) : Bool :=\n  {term}\n\n"
        + "end Unyt.Generated\n"
    )
    X.write_if_changed(os.path.join(X.GEN, "C02NumPipeline.lean"), text)
    return {"transforms": names, "number_handler": names[i], "test": ast.unparse(test), "float_ctor": float_ctor, "int_ctor": int_ctor}
