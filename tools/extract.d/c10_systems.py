"""C10 translator plugin: every entry of `unit_system_registry` (base_units, units_map, which
entries are declared overrides and which were memoised by `__getitem__`) and `em_conversions`,
dumped from the live objects of a *fresh* interpreter (so that the state of `units_map` is the
one `import unyt` leaves behind, independent of what other plugins did in this process)
-> lean/UnytModel/Generated/Systems.lean, EmTable.lean  (+ build/extract_c10_systems.json)."""
import json
import os
import subprocess
import sys

DUMP = r'''
import json, sys, warnings
warnings.simplefilter("ignore")
sys.path.insert(0, sys.argv[1])
import sympy, unyt
from fractions import Fraction
import unyt.dimensions as ud
from unyt.unit_systems import unit_system_registry
from unyt.unit_object import em_conversions, em_conversion_dims

BASE = [ud.mass, ud.length, ud.time, ud.temperature, ud.angle, ud.current_mks, ud.luminous_intensity, ud.logarithmic]

def frac(p):
    p = sympy.Rational(p)
    return [int(p.p), int(p.q)]

def dim_vec(d):
    pd = sympy.sympify(d).as_powers_dict()
    vec = [[0, 1] for _ in range(8)]
    for sym, p in pd.items():
        if sym == 1:
            continue
        for i, b in enumerate(BASE):
            if sym == b:
                f = Fraction(*vec[i]) + Fraction(*frac(p))
                vec[i] = [f.numerator, f.denominator]
                break
        else:
            raise ValueError(f"dimension {d} contains non-base atom {sym!r}")
    return vec

def expr_wire(expr):
    expr = sympy.sympify(expr)
    coeff, rest = expr.as_coeff_Mul()
    c = float(coeff)
    items = []
    for base, p in rest.as_powers_dict().items():
        if base == 1:
            continue
        if not isinstance(base, sympy.Symbol):
            raise ValueError(f"non-symbol base {base!r} in {expr!r}")
        if not sympy.Rational(p).is_Rational:
            raise ValueError("non-rational exponent")
        items.append([str(base)] + frac(p))
    items.sort()
    return [c, items]

out = {"systems": [], "em": [], "em_dims": []}
for name, S in unit_system_registry.items():
    if S.registry is not None:
        continue
    declared = []
    for k in S._dims[8:]:
        declared.append(dim_vec(getattr(ud, k)))
    base_keys = [dim_vec(k) for k in S.base_units]
    entries = []
    for k, v in S.units_map.items():
        dv = dim_vec(k)
        kind = 0 if dv in base_keys else (1 if dv in declared else 2)
        entries.append({"dim": dv, "expr": None if v is None else expr_wire(v), "kind": kind, "str": None if v is None else str(v)})
    base = [{"dim": dim_vec(k), "expr": None if v is None else expr_wire(v)} for k, v in S.base_units.items()]
    out["systems"].append({"name": name, "key": str(name), "entries": entries, "base": base, "dims_attr": list(S._dims)})
for (uname, dim), (todim, partner, factor) in em_conversions.items():
    syms = []
    from unyt._parsing import parse_unyt_expr
    from unyt._unit_lookup_table import unit_prefixes
    for p in [""] + list(unit_prefixes):
        e = parse_unyt_expr(p + partner)
        if isinstance(e, sympy.Symbol):
            syms.append([p, str(e)])
    out["em"].append({"name": uname, "dim": dim_vec(dim), "todim": dim_vec(todim), "partner": partner, "factor": float(factor), "syms": syms})
out["em_dims"] = [dim_vec(d) for d in em_conversion_dims]
json.dump(out, sys.stdout)
'''


def generate(X):
    from fractions import Fraction

    p = subprocess.run(["/venv/bin/python", "-W", "ignore", "-c", DUMP, X.REPO], capture_output=True, text=True, timeout=300)
    if p.returncode != 0:
        raise RuntimeError("c10_systems dump failed: " + p.stderr[-1500:])
    data = json.loads(p.stdout)

    def ldim(v):
        return X.ldim([Fraction(a, b) for a, b in v])

    def lfactors(items):
        return "[" + ", ".join(f"({X.lstr(s)}, {X.lrat(Fraction(a, b))})" for s, a, b in items) + "]"

    def lexpr(e):
        if e is None:
            return "none"
        return f"some ⟨{X.bits(e[0])}, {lfactors(e[1])}⟩"

    sys_rows = []
    for S in data["systems"]:
        ents = ",\n".join(f"      ({ldim(e['dim'])}, {lexpr(e['expr'])}, {e['kind']})" for e in S["entries"])
        base = ",\n".join(f"      ({ldim(e['dim'])}, {lexpr(e['expr'])})" for e in S["base"])
        sys_rows.append(f"  ⟨{X.lstr(S['name'])},\n    [\n{ents}\n    ],\n    [\n{base}\n    ]⟩")
    text = (
        X.header("UnytModel.Dim", "UnytModel.UExpr")
        + "namespace Unyt.Generated\n\n"
        + "structure RawExpr where\n  coeff : Nat\n  factors : Factors\n\n"
        + "/-- one `UnitSystem`: `units_map` items in dict order with their kind\n"
        + "    (0 = base dimension, 1 = declared with `__setitem__` (listed in `_dims`), 2 = memoised by\n"
        + "    `__getitem__`), and `base_units` -/\n"
        + "structure RawSystem where\n  name : String\n  entries : List (Dim × Option RawExpr × Nat)\n  base : List (Dim × Option RawExpr)\n\n"
        + "/-- every entry of `unit_system_registry` after `import unyt` -/\n"
        + "def rawSystems : List RawSystem := [\n"
        + ",\n".join(sys_rows)
        + "\n]\n\nend Unyt.Generated\n"
    )
    X.write_if_changed(os.path.join(X.GEN, "Systems.lean"), text)

    em_rows = [
        f"  ({X.lstr(r['name'])}, {ldim(r['dim'])}, {ldim(r['todim'])}, {X.lstr(r['partner'])}, {X.bits(r['factor'])},\n     [" + ", ".join(f"({X.lstr(a)}, {X.lstr(b)})" for a, b in r["syms"]) + "])"
        for r in data["em"]
    ]
    text = (
        X.header("UnytModel.Dim")
        + "namespace Unyt.Generated\n\n"
        + "/-- `em_conversions`: (unit name, dimensions, partner dimensions, partner unit name, factor bits,\n"
        + "    prefix ↦ symbol of parse_unyt_expr(prefix + partner)) -/\n"
        + "def rawEm : List (String × Dim × Dim × String × Nat × List (String × String)) := [\n"
        + ",\n".join(em_rows)
        + "\n]\n\n"
        + "/-- `em_conversion_dims` -/\n"
        + "def rawEmDims : List Dim := [\n"
        + ",\n".join("  " + ldim(d) for d in data["em_dims"])
        + "\n]\n\nend Unyt.Generated\n"
    )
    X.write_if_changed(os.path.join(X.GEN, "EmTable.lean"), text)
    for r in data["em"]:
        r["factor_bits"] = X.bits(r["factor"])
    for S in data["systems"]:
        for e in S["entries"] + S["base"]:
            if e["expr"] is not None:
                e["expr"] = [X.bits(e["expr"][0]), e["expr"][1]]
    return data
