"""C20 translator plugin: the small tables of the unit-string interface, from the live source.

  unyt/_parsing.py      global_dict (which NAMEs stay Python names), the textual rewrites of
                        parse_unyt_expr (AST), the transformation pipeline
  unyt/unit_object.py   the special cases of Unit.__str__ / Unit.__repr__ (AST)

-> lean/UnytModel/Generated/ParseVocab.lean
Anything this plugin does not understand (a new global, another rewrite shape, another branch in
__str__) raises: the translation of C20 is then reported broken and the failing-input search runs.
"""
import ast
import inspect
import os


def _const(node):
    if isinstance(node, ast.Constant) and isinstance(node.value, str):
        return node.value
    raise ValueError(f"expected a string constant, got {ast.dump(node)}")


def _rewrites(fn_src):
    """the `unit_expr = unit_expr.replace(A, B)` statements of parse_unyt_expr, in order, and the
    replacement of the empty string"""
    tree = ast.parse(fn_src)
    fn = tree.body[0]
    reps = []
    empty = None
    for st in fn.body:
        if isinstance(st, ast.Assign) and isinstance(st.value, ast.Call) and isinstance(st.value.func, ast.Attribute) \
                and st.value.func.attr == "replace":
            a, b = st.value.args
            reps.append((_const(a), _const(b)))
        elif isinstance(st, ast.If) and isinstance(st.test, ast.UnaryOp) and isinstance(st.test.op, ast.Not):
            for s2 in st.body:
                if isinstance(s2, ast.Assign):
                    empty = _const(s2.value)
    # every statement must be one we know: docstring-free function of If, Assign(replace)*, Try, Return
    kinds = [type(st).__name__ for st in fn.body]
    allowed = {"If", "Assign", "Try", "Return", "Expr"}
    if not set(kinds) <= allowed:
        raise ValueError(f"parse_unyt_expr has statements this translator does not know: {kinds}")
    for st in fn.body:
        if isinstance(st, ast.Assign) and not (isinstance(st.value, ast.Call) and isinstance(st.value.func, ast.Attribute) and st.value.func.attr == "replace"):
            raise ValueError("parse_unyt_expr: assignment that is not a .replace(...)")
    return reps, empty


def _str_cases(fn_src, what):
    """`if self.expr == sympy_one: return X` and `if unit_str == A: return B` branches"""
    import textwrap

    fn = ast.parse(textwrap.dedent(fn_src)).body[0]
    one = None
    special = []
    for st in fn.body:
        if isinstance(st, ast.If):
            t = st.test
            if not (isinstance(t, ast.Compare) and len(t.ops) == 1 and isinstance(t.ops[0], ast.Eq)):
                raise ValueError(f"{what}: unknown test {ast.dump(t)}")
            ret = st.body[0]
            if not (len(st.body) == 1 and isinstance(ret, ast.Return)) or st.orelse:
                raise ValueError(f"{what}: unknown branch body")
            rhs = t.comparators[0]
            if isinstance(rhs, ast.Name) and rhs.id == "sympy_one":
                one = _const(ret.value)
            else:
                special.append((_const(rhs), _const(ret.value)))
        elif isinstance(st, (ast.Assign, ast.Return, ast.Expr)):
            continue
        else:
            raise ValueError(f"{what}: unknown statement {type(st).__name__}")
    if one is None:
        raise ValueError(f"{what}: no sympy_one branch")
    return one, special


def generate(X):
    import sympy
    from unyt import _parsing
    from unyt.unit_object import Unit

    gd = {k: v for k, v in _parsing.global_dict.items() if k != "__builtins__"}
    fns, types, other = [], [], []
    for k, v in gd.items():
        if v is sympy.sqrt and k == "sqrt":
            fns.append(k)
        elif isinstance(v, type) and v in (sympy.Symbol, sympy.Integer, sympy.Float, sympy.Rational):
            types.append(k)
        else:
            other.append(k)
    if other:
        raise ValueError(f"global_dict has entries this translator does not know: {other}")
    tr = [getattr(f, "__name__", repr(f)) for f in _parsing.unit_text_transform]
    if tr != ["_auto_positive_symbol", "auto_number", "rationalize"]:
        raise ValueError(f"unit_text_transform changed: {tr}")
    reps, empty = _rewrites(inspect.getsource(_parsing.parse_unyt_expr))
    str_one, str_special = _str_cases(inspect.getsource(Unit.__str__), "Unit.__str__")
    repr_one, repr_special = _str_cases(inspect.getsource(Unit.__repr__), "Unit.__repr__")
    if repr_special:
        raise ValueError("Unit.__repr__ has special cases this translator does not know")
    if empty is None:
        raise ValueError("parse_unyt_expr: no replacement for the empty string")
    for a, _b in reps:
        if len(a) < 1:
            raise ValueError("rewrite of an empty pattern")

    L = X.lstr

    def C(t):
        return "[" + ", ".join(str(ord(c)) for c in t) + "]"

    text = (
        X.header()
        + "namespace Unyt.Generated\n\n"
        + "/-- NAME tokens `_auto_positive_symbol` leaves alone and that are the function `sqrt` -/\n"
        + "def parseGlobalFns : List String := [" + ", ".join(L(k) for k in fns) + "]\n\n"
        + "/-- NAME tokens left alone that are sympy classes (Symbol, Integer, Float, Rational) -/\n"
        + "def parseGlobalTypes : List String := [" + ", ".join(L(k) for k in types) + "]\n\n"
        + "/-- `unit_expr.replace(a, b)` of parse_unyt_expr, in order -/\n"
        + "def parseRewrites : List (String × String) := [" + ", ".join(f"({L(a)}, {L(b)})" for a, b in reps) + "]\n\n"
        + "/-- the same tables as code points (`String.toList` is very slow in the kernel) -/\n"
        + "def parseGlobalFnCodes : List (List Nat) := [" + ", ".join(C(k) for k in fns) + "]\n"
        + "def parseGlobalTypeCodes : List (List Nat) := [" + ", ".join(C(k) for k in types) + "]\n"
        + "def parseRewriteCodes : List (List Nat × List Nat) := [" + ", ".join(f"({C(a)}, {C(b)})" for a, b in reps) + "]\n"
        + f"def parseEmptyCodes : List Nat := {C(empty)}\n\n"
        + "/-- what the empty string is replaced by -/\n"
        + f"def parseEmpty : String := {L(empty)}\n\n"
        + "/-- `Unit.__str__`: text for `expr == 1`, and the (printed expression ↦ text) special cases -/\n"
        + f"def strOne : String := {L(str_one)}\n"
        + "def strSpecial : List (String × String) := [" + ", ".join(f"({L(a)}, {L(b)})" for a, b in str_special) + "]\n\n"
        + "/-- `Unit.__repr__`: text for `expr == 1` -/\n"
        + f"def reprOne : String := {L(repr_one)}\n\n"
        + "end Unyt.Generated\n"
    )
    X.write_if_changed(os.path.join(X.GEN, "ParseVocab.lean"), text)

    # inv_name_alternatives as a balanced search tree over code points (see UnytModel/NameTree.lean)
    from unyt._unit_lookup_table import inv_name_alternatives as inv

    items = sorted(inv.items(), key=lambda kv: [ord(c) for c in kv[0]])

    def tree(lo, hi, ind):
        if lo >= hi:
            return ".leaf"
        mid = (lo + hi) // 2
        k, v = items[mid]
        codes = "[" + ", ".join(str(ord(c)) for c in k) + "]"
        pad = " " * ind
        return ("(.node\n" + pad + " " + tree(lo, mid, ind + 1) + "\n" + pad + " " + codes + " " + L(v) + " " + C(v) + "\n"
                + pad + " " + tree(mid + 1, hi, ind + 1) + ")")

    # split into sub-definitions of ≤ 256 entries so that no single term is huge
    defs = []

    def build(lo, hi, name):
        if hi - lo <= 256:
            defs.append(f"def {name} : NameTree :=\n {tree(lo, hi, 1)}\n")
            return name
        mid = (lo + hi) // 2
        k, v = items[mid]
        l = build(lo, mid, name + "l")
        r = build(mid + 1, hi, name + "r")
        codes = "[" + ", ".join(str(ord(c)) for c in k) + "]"
        defs.append(f"def {name} : NameTree := .node {l} {codes} {L(v)} {C(v)} {r}\n")
        return name

    build(0, len(items), "nameTreeT")
    ttext = (X.header("UnytModel.NameTree") + "namespace Unyt.Generated\n\n" + "\n".join(defs)
             + "\n/-- `inv_name_alternatives`, sorted by key in code-point order -/\ndef nameTree : NameTree := nameTreeT\n\nend Unyt.Generated\n")
    X.write_if_changed(os.path.join(X.GEN, "ParseNames.lean"), ttext)
    return {"fns": fns, "types": types, "rewrites": reps, "empty": empty, "str_one": str_one,
            "str_special": str_special, "repr_one": repr_one}
