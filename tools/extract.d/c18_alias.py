"""C18 translator plugin: regenerates lean/UnytModel/Generated/C18Alias.lean — the may-alias abstraction
(`Unyt.AliasFlow.Table`) of EVERY module-level routine of /repo/unyt/_array_functions.py — from the source via `ast`
(the live module is imported only to select, among several `def`s of one name under `if NUMPY_VERSION ...`, the one
that is live, and to list handler -> NumPy function).

Statements (see lean/UnytModel/AliasFlow.lean), in source order, control flow dropped:

  fresh v            v bound to a new object (arithmetic, NumPy computing function, copying method, display of fresh things)
  alias v [srcs]     v MAY share its buffer with the srcs: a name, slicing / indexing, unpacking, iteration, a view attribute
                     (.d .ndview .T .real .imag .flat .base), a view method (.view .reshape .ravel .squeeze .transpose ...),
                     np.asarray / asanyarray / ascontiguousarray / atleast_nd / reshape / ravel / squeeze / broadcast_* / ...
                     (also through `._implementation`), `unyt_array(x)` / `unyt_quantity(x)` (a VIEW when x is an array),
                     a conditional expression / `or` / container display / comprehension over such things, any method
                     that is not on the list of copying methods
  write v            `v op= ..` (augmented assignment), `v[..] = ..`, `v.attr = ..`, an in-place method (`convert_to_*`, `fill`,
                     `sort`, `partition`, `put`, `resize`, `itemset`, `setfield`, `setflags`, `byteswap`), the first argument of
                     NumPy's in-place functions (`copyto put place putmask fill_diagonal put_along_axis`), `out=v` of ANY call
  call site f args ret   a call of another routine of this module (hoisted out of the expression it occurs in)

`return e` is `alias $ret srcs(e)`.  `f(*args, **kwargs)` with the routine's own variadic parameters handed on to
a callee outside this module is `write args` / `write kwargs` (an `out=` travelling in them is written by NumPy).
NOT tracked: nested function definitions and lambdas, globals.
"""
import ast
import os

VIEW_ATTRS = {"d", "ndview", "T", "mT", "real", "imag", "flat", "base"}
FRESH_ATTRS = {"units", "shape", "dtype", "ndim", "size", "v", "value", "name", "itemsize", "nbytes", "strides", "flags",
               "dimensions", "registry", "__name__", "__class__", "base_value", "base_offset", "is_dimensionless", "expr"}
COPY_METHODS = {"to", "in_units", "in_base", "in_cgs", "in_mks", "to_value", "to_equivalent", "copy", "astype", "tolist",
                "item", "sum", "prod", "mean", "min", "max", "std", "var", "dot", "tobytes", "get_conversion_factor",
                "index", "count", "format", "join", "startswith", "endswith",
                "same_dimensions_as", "get_base_equivalent", "get_cgs_equivalent", "get_mks_equivalent", "has_equivalent",
                "to_string", "any", "all", "nonzero", "argsort", "argmax", "argmin", "searchsorted", "cumsum", "cumprod",
                "round", "clip", "conj", "conjugate", "repeat", "take", "compress", "choose", "trace", "ptp", "flatten"}
INPLACE_METHODS = {"convert_to_units", "convert_to_base", "convert_to_cgs", "convert_to_mks", "convert_to_equivalent",
                   "fill", "sort", "partition", "put", "resize", "itemset", "setfield", "setflags", "byteswap",
                   "append", "extend", "insert", "remove", "clear", "update", "__setitem__", "__iadd__", "__imul__",
                   "__isub__", "__itruediv__"}
NP_INPLACE = {"copyto", "put", "place", "putmask", "fill_diagonal", "put_along_axis"}
NP_UFUNC2 = {"add", "subtract", "multiply", "divide", "true_divide", "floor_divide", "power", "maximum", "minimum", "mod",
             "remainder", "fmod", "hypot", "arctan2", "copysign", "fmax", "fmin", "heaviside", "logaddexp", "logaddexp2"}
NP_UFUNC1 = {"negative", "positive", "absolute", "fabs", "sqrt", "square", "cbrt", "reciprocal", "exp", "exp2", "log", "log2",
             "log10", "expm1", "log1p", "sin", "cos", "tan", "arcsin", "arccos", "arctan", "sinh", "cosh", "tanh", "rint",
             "floor", "ceil", "trunc", "sign", "conjugate", "deg2rad", "rad2deg"}
NP_OVERWRITE = {"median", "nanmedian", "percentile", "nanpercentile", "quantile", "nanquantile"}   # overwrite_input=True
NP_VIEW = {"asarray", "asanyarray", "ascontiguousarray", "asfortranarray", "asarray_chkfinite", "atleast_1d", "atleast_2d",
           "atleast_3d", "array", "squeeze", "reshape", "ravel", "transpose", "swapaxes", "moveaxis", "rollaxis",
           "broadcast_to", "broadcast_arrays", "expand_dims", "diagonal", "real", "imag", "split", "array_split", "hsplit",
           "vsplit", "dsplit", "nditer", "matrix_transpose", "permute_dims", "require", "view", "nan_to_num"}
VIEW_CTORS = {"unyt_array", "unyt_quantity", "list", "tuple", "iter", "reversed", "zip", "enumerate", "next", "sorted"}
FRESH_BUILTINS = {"len", "range", "hasattr", "isinstance", "float", "int", "bool", "str", "type", "Version", "any", "all",
                  "sum", "min", "max", "abs", "set", "dict", "repr", "id", "callable", "TypeError", "ValueError", "warn"}


def _defs(tree):
    """every module-level FunctionDef, also under if / try / with"""
    out = []

    def walk(body):
        for n in body:
            if isinstance(n, ast.FunctionDef):
                out.append(n)
            elif isinstance(n, (ast.If, ast.Try, ast.With)):
                for fld in ("body", "orelse", "finalbody"):
                    walk(getattr(n, fld, []) or [])
                for h in getattr(n, "handlers", []) or []:
                    walk(h.body)

    walk(tree.body)
    return out


def _params(fn):
    a = fn.args
    ps = [x.arg for x in a.posonlyargs + a.args]
    if a.vararg:
        ps.append(a.vararg.arg)
    ps += [x.arg for x in a.kwonlyargs]
    if a.kwarg:
        ps.append(a.kwarg.arg)
    return ps


CALLEE_NAMES = {}   # (routine, parameter) -> set of NumPy function names passed for it at the call sites (None: not all literal)


def _collect_callee_names(defs):
    CALLEE_NAMES.clear()
    byname = {d.name: d for d in defs}
    seen = {}
    for d in defs:
        for n in ast.walk(d):
            if isinstance(n, ast.Call) and isinstance(n.func, ast.Name) and n.func.id in byname:
                ps = _params(byname[n.func.id])
                for i, x in enumerate(n.args):
                    if i >= len(ps) or isinstance(x, ast.Starred):
                        break
                    chain, m = [], x
                    while isinstance(m, ast.Attribute):
                        chain.append(m.attr)
                        m = m.value
                    lit = chain[0] if (isinstance(m, ast.Name) and m.id == "np" and chain) else None
                    seen.setdefault((n.func.id, ps[i]), []).append(lit)
    for k, v in seen.items():
        if all(x is not None for x in v):
            CALLEE_NAMES[k] = set(v)


class Abstractor:
    def __init__(self, fn, routines, cls=None):
        self.fn, self.routines, self.cls = fn, routines, cls
        self.stmts = []
        self.tmp = 0
        # names that are bound to a container built here (dict / list / set display, comprehension, dict() / list() / set()),
        # and the *args / **kwargs parameters: storing into them updates the CONTAINER, not an array buffer
        self.containers = set()
        if fn.args.kwarg:
            self.containers.add(fn.args.kwarg.arg)
        if fn.args.vararg:
            self.containers.add(fn.args.vararg.arg)
        for n in ast.walk(fn):
            # a name used as a mapping (`x.get(..)`, `x.items()`, `x.keys()`) is a dict
            if (isinstance(n, ast.Call) and isinstance(n.func, ast.Attribute) and n.func.attr in ("get", "items", "keys")
                    and isinstance(n.func.value, ast.Name)):
                self.containers.add(n.func.value.id)
            if isinstance(n, ast.Assign) and len(n.targets) == 1 and isinstance(n.targets[0], ast.Name):
                v = n.value
                if isinstance(v, (ast.Dict, ast.List, ast.Set, ast.ListComp, ast.DictComp, ast.SetComp)) or (
                        isinstance(v, ast.Call) and isinstance(v.func, ast.Name) and v.func.id in ("dict", "list", "set")):
                    self.containers.add(n.targets[0].id)

    # ---- expressions: the names the value may share its buffer with ([] = a new object)
    def srcs(self, e):
        if e is None or isinstance(e, ast.Constant):
            return []
        if isinstance(e, ast.Name):
            return [e.id]
        if isinstance(e, ast.Starred):
            return self.srcs(e.value)
        if isinstance(e, ast.Attribute):
            # a property of the routine's own class read on `self` is a call of its getter
            if (isinstance(e.value, ast.Name) and e.value.id == "self" and self.cls is not None
                    and e.attr not in VIEW_ATTRS and e.attr not in FRESH_ATTRS):
                for c in (self.cls, "unyt_array"):
                    q = f"{c}.{e.attr}"
                    if q in self.routines and any(isinstance(d, ast.Name) and d.id == "property" for d in self.routines[q].decorator_list):
                        self.tmp += 1
                        ret = f"$t{self.tmp}"
                        self.stmts.append(("call", f"{q}@{self.tmp}", q, [(_params(self.routines[q])[0], ["self"])], ret))
                        return [ret]
            if e.attr in FRESH_ATTRS:
                self.scan(e.value)
                return []
            return self.srcs(e.value)
        if isinstance(e, ast.Subscript):
            self.scan(e.slice)
            return self.srcs(e.value)
        if isinstance(e, (ast.Tuple, ast.List, ast.Set)):
            return self.union(e.elts)
        if isinstance(e, ast.Dict):
            return self.union([v for v in e.values if v is not None])
        if isinstance(e, ast.IfExp):
            self.scan(e.test)
            return self.union([e.body, e.orelse])
        if isinstance(e, ast.BoolOp):
            return self.union(e.values)
        if isinstance(e, ast.NamedExpr):
            s = self.srcs(e.value)
            self.bind(e.target.id, s)
            return s
        if isinstance(e, (ast.ListComp, ast.SetComp, ast.GeneratorExp, ast.DictComp)):
            for g in e.generators:
                s = self.srcs(g.iter)
                for n in ast.walk(g.target):
                    if isinstance(n, ast.Name):
                        self.bind(n.id, s)
                for c in g.ifs:
                    self.scan(c)
            if isinstance(e, ast.DictComp):
                self.scan(e.key)
                return self.srcs(e.value)
            return self.srcs(e.elt)
        if isinstance(e, ast.Call):
            return self.call(e)
        # arithmetic, comparisons, f-strings, lambdas ...: a new object; still look inside for writes / calls
        for c in ast.iter_child_nodes(e):
            if isinstance(c, ast.expr):
                self.scan(c)
        return []

    def union(self, es):
        out = []
        for x in es:
            for s in self.srcs(x):
                if s not in out:
                    out.append(s)
        return out

    def scan(self, e):
        """evaluate for effects only"""
        if isinstance(e, ast.expr):
            self.srcs(e)
        elif isinstance(e, ast.Slice):
            for c in (e.lower, e.upper, e.step):
                if c is not None:
                    self.srcs(c)

    def write(self, names, why):
        for n in names:
            self.stmts.append(("write", n, why))

    def bind(self, v, s):
        self.stmts.append(("alias", v, list(s)) if s else ("fresh", v))

    def call(self, e):
        f = e.func
        # out= of ANY call is written
        for kw in e.keywords:
            if kw.arg == "out":
                self.write(self.srcs(kw.value), "out=")
        # *args / **kwargs of THIS routine handed on to a NumPy implementation: an `out=` travelling in them is written by NumPy
        if not (isinstance(f, ast.Name) and f.id in self.routines) and not (
                isinstance(f, ast.Attribute) and isinstance(f.value, ast.Name) and f.value.id == "self"):
            va, ka = self.fn.args.vararg, self.fn.args.kwarg
            for x in e.args:
                if isinstance(x, ast.Starred) and isinstance(x.value, ast.Name) and va and x.value.id == va.arg:
                    self.write([va.arg], "*passthrough")
            for kw in e.keywords:
                if kw.arg is None and isinstance(kw.value, ast.Name) and ka and kw.value.id == ka.arg:
                    self.write([ka.arg], "**passthrough")
        argsrcs = lambda: self.union(list(e.args) + [kw.value for kw in e.keywords if kw.arg != "out"])  # noqa: E731
        qual, recv0 = None, None
        if isinstance(f, ast.Name) and f.id in self.routines:
            qual = f.id
        elif (isinstance(f, ast.Attribute) and isinstance(f.value, ast.Name) and f.value.id == "self" and self.cls is not None):
            for c in (self.cls, "unyt_array"):
                if f"{c}.{f.attr}" in self.routines:
                    qual, recv0 = f"{c}.{f.attr}", ["self"]
                    break
        if qual is not None:
            if True:
                fn = self.routines[qual]
                ps = _params(fn)
                a = fn.args
                npos = len(a.posonlyargs) + len(a.args)
                binds = {}
                off = 0
                if recv0 is not None and ps:
                    binds[ps[0]] = list(recv0)
                    off = 1
                for i, x in enumerate(e.args):
                    i = i + off
                    if isinstance(x, ast.Starred) or i >= npos:
                        par = a.vararg.arg if a.vararg else None
                    else:
                        par = ps[i]
                    if par is not None:
                        binds.setdefault(par, [])
                        binds[par] += [s for s in self.srcs(x) if s not in binds[par]]
                for kw in e.keywords:
                    par = kw.arg if kw.arg in ps else (a.kwarg.arg if a.kwarg else None)
                    if par is not None:
                        binds.setdefault(par, [])
                        binds[par] += [s for s in self.srcs(kw.value) if s not in binds[par]]
                self.tmp += 1
                ret = f"$t{self.tmp}"
                self.stmts.append(("call", f"{qual}@{self.tmp}", qual, [(p, s) for p, s in binds.items() if s], ret))
                return [ret]
        if isinstance(f, ast.Name):
            if f.id in VIEW_CTORS:
                return argsrcs()
            if f.id == "getattr" and len(e.args) >= 2 and isinstance(e.args[1], ast.Constant):
                base = [] if e.args[1].value in FRESH_ATTRS else self.srcs(e.args[0])
                return base + [s for x in e.args[2:] for s in self.srcs(x) if s not in base]
            argsrcs()
            return [] if f.id in FRESH_BUILTINS else []
        if isinstance(f, ast.Attribute):
            # np.<f>(..) / np.<f>._implementation(..) / np.linalg.<f>..
            chain = []
            n = f
            while isinstance(n, ast.Attribute):
                chain.append(n.attr)
                n = n.value
            root = n.id if isinstance(n, ast.Name) else None
            chain.reverse()
            if root in _params(self.fn) and chain and chain[-1] == "_implementation":
                # a NumPy function received as a PARAMETER (`func._implementation(..)`): which one is not known here, and some
                # (percentile / quantile / median with overwrite_input=True) are permitted to modify their first argument
                # — resolved from the call sites of this routine when every one of them passes a literal `np.<name>`
                names = CALLEE_NAMES.get((self.fn.name, root))
                passes_kwargs = any(kw.arg is None for kw in e.keywords) or any(kw.arg == "overwrite_input" for kw in e.keywords)
                if e.args and passes_kwargs and (names is None or names & NP_OVERWRITE):
                    self.write(self.srcs(e.args[0]), "param-callee(overwrite_input)")
                self.union(list(e.args[1:]) + [kw.value for kw in e.keywords if kw.arg != "out"])
                return []
            if root == "np":
                name = [c for c in chain if c != "_implementation"][-1]
                if name in NP_OVERWRITE and e.args:
                    self.write(self.srcs(e.args[0]), f"np.{name}(overwrite_input)")
                    self.union(list(e.args[1:]) + [kw.value for kw in e.keywords if kw.arg != "out"])
                    return []
                if name in NP_UFUNC2 and len(e.args) >= 3:
                    self.write(self.srcs(e.args[2]), f"np.{name}(positional out)")
                if name in NP_UFUNC1 and len(e.args) >= 2:
                    self.write(self.srcs(e.args[1]), f"np.{name}(positional out)")
                if name in NP_INPLACE and e.args:
                    self.write(self.srcs(e.args[0]), f"np.{name}")
                    self.union(list(e.args[1:]) + [kw.value for kw in e.keywords])
                    return []
                s = argsrcs()
                return s if name in NP_VIEW else []
            m = f.attr
            recv = self.srcs(f.value)
            if (m in ("append", "extend", "insert", "update", "add", "setdefault", "pop", "remove", "clear")
                    and isinstance(f.value, ast.Name) and f.value.id in self.containers):
                a = argsrcs()
                if a:
                    self.stmts.append(("alias", f.value.id, a))
                return a if m in ("setdefault", "pop") else []
            if m in INPLACE_METHODS:
                self.write(recv, "." + m)
                argsrcs()
                return []
            a = argsrcs()
            if m in COPY_METHODS:
                return []
            return recv + ([s for s in a if s not in recv] if m in ("view", "get", "pop", "setdefault") else [])
        argsrcs()
        self.scan(f)
        return []

    # ---- statements
    def target(self, t, s):
        if isinstance(t, ast.Name):
            self.bind(t.id, s)
        elif isinstance(t, (ast.Tuple, ast.List)):
            for x in t.elts:
                self.target(x, s)
        elif isinstance(t, ast.Starred):
            self.target(t.value, s)
        elif isinstance(t, ast.Subscript):
            self.scan(t.slice)
            if isinstance(t.value, ast.Name) and t.value.id in self.containers:
                if s:
                    self.stmts.append(("alias", t.value.id, list(s)))
            else:
                self.write(self.srcs(t.value), "[]=")
        elif isinstance(t, ast.Attribute):
            self.write(self.srcs(t.value), "." + t.attr + "=")

    def body(self, stmts):
        for n in stmts:
            if isinstance(n, ast.Assign):
                s = self.srcs(n.value)
                for t in n.targets:
                    self.target(t, s)
            elif isinstance(n, ast.AnnAssign):
                if n.value is not None:
                    self.target(n.target, self.srcs(n.value))
            elif isinstance(n, ast.AugAssign):
                self.scan(n.value)
                if isinstance(n.target, ast.Name):
                    self.write([n.target.id], "op=")
                else:
                    self.write(self.srcs(n.target.value), "[]op=")
            elif isinstance(n, ast.Expr):
                self.scan(n.value)
            elif isinstance(n, ast.Return):
                if n.value is not None:
                    s = self.srcs(n.value)
                    if s:
                        self.stmts.append(("alias", "$ret", s))
            elif isinstance(n, ast.For):
                self.target(n.target, self.srcs(n.iter))
                self.body(n.body)
                self.body(n.orelse)
            elif isinstance(n, ast.While):
                self.scan(n.test)
                self.body(n.body)
                self.body(n.orelse)
            elif isinstance(n, ast.If):
                self.scan(n.test)
                self.body(n.body)
                self.body(n.orelse)
            elif isinstance(n, ast.With):
                for it in n.items:
                    s = self.srcs(it.context_expr)
                    if it.optional_vars is not None:
                        self.target(it.optional_vars, s)
                self.body(n.body)
            elif isinstance(n, ast.Try):
                self.body(n.body)
                for h in n.handlers:
                    self.body(h.body)
                self.body(n.orelse)
                self.body(n.finalbody)
            elif isinstance(n, ast.Raise):
                if n.exc is not None:
                    self.scan(n.exc)
            elif isinstance(n, ast.Delete):
                pass
            elif isinstance(n, ast.Assert):
                self.scan(n.test)
            # nested defs, imports, pass, global: nothing


def _emit(X, rows, module, doc):
    def lst(xs):
        return "[" + ", ".join(X.lstr(x) for x in xs) + "]"

    def stmt(s):
        if s[0] == "fresh":
            return f".fresh {X.lstr(s[1])}"
        if s[0] == "alias":
            return f".alias {X.lstr(s[1])} {lst(s[2])}"
        if s[0] == "write":
            return f".write {X.lstr(s[1])}"
        return (f".call {X.lstr(s[1])} {X.lstr(s[2])} [" + ", ".join(f"({X.lstr(p)}, {lst(v)})" for p, v in s[3]) + f"] {X.lstr(s[4])}")

    L = [f"-- GENERATED by tools/extract.d/c18_alias.py from /repo/unyt — do not edit",
         "import UnytModel.AliasFlow", "set_option maxRecDepth 1000000", "", f"namespace Unyt.Generated.{module}", "open Unyt.AliasFlow", ""]
    names = []
    for i, (name, ps, stmts) in enumerate(rows):
        names.append(f"r{i}")
        L.append(f"def r{i} : Routine := ⟨{X.lstr(name)}, {lst(ps)}, [")
        L.append(",\n".join("  " + stmt(s) for s in stmts) + "]⟩")
    L.append("")
    L.append(f"/-- {doc} -/")
    L.append("def table : Table := [" + ", ".join(names) + "]")
    L.append("")
    L.append(f"end Unyt.Generated.{module}")
    return "\n".join(L) + "\n"


def _array_rows(X):
    """unyt/array.py: module-level functions + methods of unyt_array / unyt_quantity"""
    tree = ast.parse(open(os.path.join(X.REPO, "unyt", "array.py"), encoding="utf-8").read())
    routines, owner = {}, {}
    for fn in _defs(tree):
        routines.setdefault(fn.name, fn)
    for node in tree.body:
        if isinstance(node, ast.ClassDef) and node.name in ("unyt_array", "unyt_quantity"):
            for f in node.body:
                if isinstance(f, ast.FunctionDef):
                    # property setters / overloads: keep the first def of a name that is not a setter
                    if any(isinstance(d, ast.Attribute) and d.attr in ("setter", "deleter") for d in f.decorator_list):
                        continue
                    q = f"{node.name}.{f.name}"
                    if q not in routines:
                        routines[q] = f
                        owner[q] = node.name
    _collect_callee_names([])
    rows = []
    for q, fn in routines.items():
        A = Abstractor(fn, routines, owner.get(q))
        A.body(fn.body)
        rows.append((q, _params(fn), A.stmts))
    return rows


def generate(X):
    path = os.path.join(X.REPO, "unyt", "_array_functions.py")
    tree = ast.parse(open(path, encoding="utf-8").read())
    defs = _defs(tree)
    _collect_callee_names(defs)
    live_line = {}
    handlers = {}
    try:
        import numpy as np  # noqa: F401
        import unyt._array_functions as AF

        for k, v in vars(AF).items():
            if callable(v) and hasattr(v, "__code__") and getattr(v, "__module__", None) == AF.__name__:
                live_line[v.__name__] = v.__code__.co_firstlineno
        for npf, h in AF._HANDLED_FUNCTIONS.items():
            mod = getattr(npf, "__module__", "numpy") or "numpy"
            handlers[f"{mod}.{getattr(npf, '__name__', '?')}"] = h.__name__
    except Exception as e:  # noqa: BLE001
        handlers = {"?import-failed": repr(e)}
    chosen = {}
    for fn in defs:
        first = min([fn.lineno] + [d.lineno for d in fn.decorator_list])
        if fn.name not in chosen or live_line.get(fn.name) in (first, fn.lineno):
            chosen[fn.name] = fn
    rows = []
    for name, fn in chosen.items():
        A = Abstractor(fn, chosen)
        A.body(fn.body)
        rows.append((name, _params(fn), A.stmts))

    text = _emit(X, rows, "C18Alias", "every module-level routine of unyt/_array_functions.py")
    X.write_if_changed(os.path.join(X.GEN, "C18Alias.lean"), text)
    arows = _array_rows(X)
    X.write_if_changed(os.path.join(X.GEN, "C18AliasArray.lean"),
                       _emit(X, arows, "C18AliasArray", "every module-level function of unyt/array.py and every method of unyt_array / unyt_quantity (qualified `Class.method`, `self` is the first parameter)"))
    return {"array_routines": {name: ps for name, ps, _ in arows},
            "routines": {name: {"params": ps, "stmts": [list(s[:2]) + [list(map(list, s[3])) if s[0] == "call" else (s[2] if len(s) > 2 else None)] for s in stmts]}
                         for name, ps, stmts in rows},
            "handlers": handlers,
            "writes_why": {name: [[s[1], s[2]] for s in stmts if s[0] == "write"] for name, _ps, stmts in rows if any(s[0] == "write" for s in stmts)}}
