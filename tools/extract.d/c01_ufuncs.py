"""C01 translator plugin: the ufunc dispatch tables of unyt/array.py, from the live objects.

Writes lean/UnytModel/Generated/Ufuncs.lean:
  * `ufuncRegistry`   — `unyt_array._ufunc_registry` as (key.__name__, rule function __name__)
  * `unaryOperators`, `binaryOperators`, `trigonometricOperators`, `multipleOutputOperators`
  * the names of the objects `__array_ufunc__` compares with by identity (multiply, divide, power,
    equal, not_equal, clip, modf, divmod_) and whether the `clip` it imported is a ufunc at all
  * `npUfuncAliases`  — every public attribute of `numpy` that is a ufunc -> its `__name__`
    (np.mod is np.remainder, np.abs is np.absolute, ...), so that the hand-written reference can
    speak in NumPy's public names
"""
import os

import numpy as np


def generate(X):
    import unyt.array as ua

    reg = ua.unyt_array._ufunc_registry
    rows = []
    jreg = {}
    for k, v in reg.items():
        kn = getattr(k, "__name__", repr(k))
        vn = getattr(v, "__name__", repr(v))
        if kn in jreg:
            raise ValueError(f"two registry keys share the name {kn}")
        jreg[kn] = vn
        rows.append((kn, vn, isinstance(k, np.ufunc), getattr(k, "nin", 0), getattr(k, "nout", 0)))

    def names(seq):
        return [getattr(o, "__name__", repr(o)) for o in seq]

    unary = names(ua.unary_operators)
    binary = names(ua.binary_operators)
    trig = names(ua.trigonometric_operators)
    multi = [(getattr(k, "__name__", repr(k)), int(v)) for k, v in ua.multiple_output_operators.items()]
    ident = {}
    for attr in ("multiply", "divide", "power", "equal", "not_equal", "clip", "modf", "divmod_"):
        ident[attr] = getattr(getattr(ua, attr), "__name__", attr)
    clip_is_ufunc = isinstance(ua.clip, np.ufunc)
    rule_idents = {}
    for attr in ("_preserve_units", "_comparison_unit", "_arctan2_unit", "_difference_units",
                 "_multiply_units", "_divide_units"):
        rule_idents[attr] = getattr(ua, attr).__name__
    aliases = {}
    for n in sorted(dir(np)):
        o = getattr(np, n, None)
        if isinstance(o, np.ufunc) and not n.startswith("_"):
            aliases[n] = o.__name__
    # numpy ufuncs as objects: nin/nout for the harness
    meta = {}
    for n, canon in aliases.items():
        o = getattr(np, n)
        meta[canon] = [o.nin, o.nout]
    power_map = {}
    for k, f in ua.POWER_MAPPING.items():
        # the two lambdas are affine in the count: record f(0), f(1) (slope/intercept)
        power_map[k.__name__] = [int(f(0)), int(f(1))]
    # the dispatcher's own branch tuples, by `ast` over the source of `__array_ufunc__`:
    #  * the `unit_operator in (…)` tuple guarding the block that checks dimensions and rescales the
    #    second operand (recognised by the `get_conversion_factor` call in its body),
    #  * the rule replaced by `_divide_units` on a dimension mismatch just before
    #    (`if unit_operator is X and not u0.same_dimensions_as(u1): unit_operator = _divide_units`),
    #  * the tuple of the `raise UnitOperationError` sites' innermost guard `unit_operator is Y`
    #    (the comparison family gets its exceptions there).
    import ast as _ast

    src = open(os.path.join(X.REPO, "unyt", "array.py"), encoding="utf-8").read()
    fn = [n for n in _ast.walk(_ast.parse(src)) if isinstance(n, _ast.FunctionDef) and n.name == "__array_ufunc__"][0]
    rescale_tuple, fallback = None, []
    for n in _ast.walk(fn):
        if not isinstance(n, _ast.If):
            continue
        t = n.test
        if (isinstance(t, _ast.Compare) and len(t.ops) == 1 and isinstance(t.ops[0], _ast.In)
                and isinstance(t.left, _ast.Name) and t.left.id == "unit_operator"
                and isinstance(t.comparators[0], _ast.Tuple)
                and any(isinstance(c, _ast.Attribute) and c.attr == "get_conversion_factor" for b in n.body for c in _ast.walk(b))):
            if rescale_tuple is not None:
                raise ValueError("two candidate rescale tuples in __array_ufunc__")
            rescale_tuple = [e.id for e in t.comparators[0].elts]
        if (isinstance(t, _ast.BoolOp) and isinstance(t.op, _ast.And) and len(n.body) == 1
                and isinstance(n.body[0], _ast.Assign) and _ast.unparse(n.body[0].targets[0]) == "unit_operator"
                and "same_dimensions_as" in _ast.unparse(t)):
            first = t.values[0]
            if isinstance(first, _ast.Compare) and isinstance(first.ops[0], _ast.Is) and _ast.unparse(first.left) == "unit_operator":
                fallback.append((_ast.unparse(first.comparators[0]), _ast.unparse(n.body[0].value)))
    if rescale_tuple is None:
        raise ValueError("rescale tuple of __array_ufunc__ not found")
    L = X.lstr
    text = (
        X.header()
        + "namespace Unyt.Generated\n\n"
        + "/-- `unyt_array._ufunc_registry`: (key `__name__`, rule function `__name__`, key is a ufunc, nin, nout) -/\n"
        + "def ufuncRegistryRows : List (String × String × Bool × Nat × Nat) := [\n"
        + ",\n".join(f"  ({L(a)}, {L(b)}, {'true' if c else 'false'}, {d}, {e})" for a, b, c, d, e in rows)
        + "\n]\n\n"
        + "def unaryOperators : List String := [" + ", ".join(L(n) for n in unary) + "]\n\n"
        + "def binaryOperators : List String := [" + ", ".join(L(n) for n in binary) + "]\n\n"
        + "def trigonometricOperators : List String := [" + ", ".join(L(n) for n in trig) + "]\n\n"
        + "def multipleOutputOperators : List (String × Nat) := [" + ", ".join(f"({L(n)}, {c})" for n, c in multi) + "]\n\n"
        + "/-- `POWER_MAPPING`: ufunc name ↦ (f 0, f 1) of the (affine) count → exponent map -/\n"
        + "def powerMapping : List (String × Int × Int) := [" + ", ".join(f"({L(n)}, {a}, {b})" for n, (a, b) in power_map.items()) + "]\n\n"
        + "/-- the objects `__array_ufunc__` compares with by identity, by `__name__` -/\n"
        + "".join(f"def ident_{a.rstrip('_')} : String := {L(v)}\n" for a, v in ident.items())
        + f"def clipIsUfunc : Bool := {'true' if clip_is_ufunc else 'false'}\n\n"
        + "/-- the rule functions `__array_ufunc__` compares with by identity, by `__name__` -/\n"
        + "".join(f"def rule{a} : String := {L(v)}\n" for a, v in rule_idents.items())
        + "\n/-- the `unit_operator in (…)` tuple guarding the dimension check / rescale block of `__array_ufunc__` (ast) -/\n"
        + "def dispatcherRescaleTuple : List String := [" + ", ".join(L(n) for n in rescale_tuple) + "]\n"
        + "/-- rules replaced just before that block when the operands' dimensions differ: (rule, replacement) (ast) -/\n"
        + "def dispatcherMismatchFallback : List (String × String) := [" + ", ".join(f"({L(a)}, {L(b)})" for a, b in fallback) + "]\n"
        + "\n/-- every public ufunc attribute of `numpy` ↦ its `__name__` -/\n"
        + "def npUfuncAliases : List (String × String) := [\n"
        + ",\n".join(f"  ({L(a)}, {L(b)})" for a, b in aliases.items())
        + "\n]\n\nend Unyt.Generated\n"
    )
    X.write_if_changed(os.path.join(X.GEN, "Ufuncs.lean"), text)
    return {
        "registry": jreg,
        "registry_rows": rows,
        "unary": unary,
        "binary": binary,
        "trig": trig,
        "multi": multi,
        "ident": ident,
        "clip_is_ufunc": clip_is_ufunc,
        "rule_idents": rule_idents,
        "aliases": aliases,
        "meta": meta,
        "power_map": power_map,
        "rescale_tuple": rescale_tuple,
        "mismatch_fallback": fallback,
    }
