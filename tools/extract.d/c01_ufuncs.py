"""C01 translator plugin: the ufunc dispatch tables of unyt/array.py, from the live objects.

Writes lean/UnytModel/Generated/Ufuncs.lean:
  * `ufuncRegistry`   — `unyt_array._ufunc_registry` as (key.__name__, rule function __name__)
  * `unaryOperators`, `binaryOperators`, `trigonometricOperators`, `multipleOutputOperators`
  * the names of the objects `__array_ufunc__` compares with by identity (multiply, divide, power,
    equal, not_equal, clip, modf, divmod_) and whether the `clip` it imported is a ufunc at all
  * `npUfuncAliases`  — every public attribute of `numpy` that is a ufunc -> its `__name__`
    (np.mod is np.remainder, np.abs is np.absolute, ...), so that the hand-written reference can
    speak in NumPy's public names
"""
import os

import numpy as np


def generate(X):
    import unyt.array as ua

    reg = ua.unyt_array._ufunc_registry
    rows = []
    jreg = {}
    for k, v in reg.items():
        kn = getattr(k, "__name__", repr(k))
        vn = getattr(v, "__name__", repr(v))
        if kn in jreg:
            raise ValueError(f"two registry keys share the name {kn}")
        jreg[kn] = vn
        rows.append((kn, vn, isinstance(k, np.ufunc), getattr(k, "nin", 0), getattr(k, "nout", 0)))

    def names(seq):
        return [getattr(o, "__name__", repr(o)) for o in seq]

    unary = names(ua.unary_operators)
    binary = names(ua.binary_operators)
    trig = names(ua.trigonometric_operators)
    multi = [(getattr(k, "__name__", repr(k)), int(v)) for k, v in ua.multiple_output_operators.items()]
    ident = {}
    for attr in ("multiply", "divide", "power", "equal", "not_equal", "clip", "modf", "divmod_"):
        ident[attr] = getattr(getattr(ua, attr), "__name__", attr)
    clip_is_ufunc = isinstance(ua.clip, np.ufunc)
    rule_idents = {}
    for attr in ("_preserve_units", "_comparison_unit", "_arctan2_unit", "_difference_units",
                 "_multiply_units", "_divide_units"):
        rule_idents[attr] = getattr(ua, attr).__name__
    aliases = {}
    for n in sorted(dir(np)):
        o = getattr(np, n, None)
        if isinstance(o, np.ufunc) and not n.startswith("_"):
            aliases[n] = o.__name__
    # numpy ufuncs as objects: nin/nout for the harness
    meta = {}
    for n, canon in aliases.items():
        o = getattr(np, n)
        meta[canon] = [o.nin, o.nout]
    power_map = {}
    for k, f in ua.POWER_MAPPING.items():
        # the two lambdas are affine in the count: record f(0), f(1) (slope/intercept)
        power_map[k.__name__] = [int(f(0)), int(f(1))]
    L = X.lstr
    text = (
        X.header()
        + "namespace Unyt.Generated\n\n"
        + "/-- `unyt_array._ufunc_registry`: (key `__name__`, rule function `__name__`, key is a ufunc, nin, nout) -/\n"
        + "def ufuncRegistryRows : List (String × String × Bool × Nat × Nat) := [\n"
        + ",\n".join(f"  ({L(a)}, {L(b)}, {'true' if c else 'false'}, {d}, {e})" for a, b, c, d, e in rows)
        + "\n]\n\n"
        + "def unaryOperators : List String := [" + ", ".join(L(n) for n in unary) + "]\n\n"
        + "def binaryOperators : List String := [" + ", ".join(L(n) for n in binary) + "]\n\n"
        + "def trigonometricOperators : List String := [" + ", ".join(L(n) for n in trig) + "]\n\n"
        + "def multipleOutputOperators : List (String × Nat) := [" + ", ".join(f"({L(n)}, {c})" for n, c in multi) + "]\n\n"
        + "/-- `POWER_MAPPING`: ufunc name ↦ (f 0, f 1) of the (affine) count → exponent map -/\n"
        + "def powerMapping : List (String × Int × Int) := [" + ", ".join(f"({L(n)}, {a}, {b})" for n, (a, b) in power_map.items()) + "]\n\n"
        + "/-- the objects `__array_ufunc__` compares with by identity, by `__name__` -/\n"
        + "".join(f"def ident_{a.rstrip('_')} : String := {L(v)}\n" for a, v in ident.items())
        + f"def clipIsUfunc : Bool := {'true' if clip_is_ufunc else 'false'}\n\n"
        + "/-- the rule functions `__array_ufunc__` compares with by identity, by `__name__` -/\n"
        + "".join(f"def rule{a} : String := {L(v)}\n" for a, v in rule_idents.items())
        + "\n/-- every public ufunc attribute of `numpy` ↦ its `__name__` -/\n"
        + "def npUfuncAliases : List (String × String) := [\n"
        + ",\n".join(f"  ({L(a)}, {L(b)})" for a, b in aliases.items())
        + "\n]\n\nend Unyt.Generated\n"
    )
    X.write_if_changed(os.path.join(X.GEN, "Ufuncs.lean"), text)
    return {
        "registry": jreg,
        "registry_rows": rows,
        "unary": unary,
        "binary": binary,
        "trig": trig,
        "multi": multi,
        "ident": ident,
        "clip_is_ufunc": clip_is_ufunc,
        "rule_idents": rule_idents,
        "aliases": aliases,
        "meta": meta,
        "power_map": power_map,
    }
