"""C15 translator plugin `Constants`: the `physical_constants` table and every materialised
quantity — `unyt.physical_constants` (every name, alias, `_mks` / `_cgs` suffix), the top-level
`unyt` namespace, and the constants `add_constants` builds for a fresh registry of each built-in
unit system and of a custom unit system (through the library's API) — each with its value (bits
of the double), the SI scale of its unit (bits) and its dimension.

Output: lean/UnytModel/Generated/C15Constants.lean (+ JSON for the harness).
"""
import os

CUSTOM = ("c15_custom", "ft", "oz", "min", "R")  # name, length, mass, time, temperature


def spaces_live():
    """namespace id -> {name: quantity}; deterministic order"""
    import unyt
    import unyt.physical_constants as pc
    from unyt.array import unyt_quantity
    from unyt.unit_registry import UnitRegistry
    from unyt.unit_systems import UnitSystem, add_constants, unit_system_registry

    out = []
    out.append(("pc", {k: v for k, v in vars(pc).items() if isinstance(v, unyt_quantity)}))
    out.append(("top", {k: v for k, v in vars(unyt).items() if isinstance(v, unyt_quantity)}))
    ns = {}
    add_constants(ns, UnitRegistry())
    out.append(("fresh", ns))
    builtin = sorted(k for k in unit_system_registry if k != CUSTOM[0])
    for s in builtin:
        ns = {}
        add_constants(ns, UnitRegistry(unit_system=s))
        out.append(("sys:" + s, ns))
    UnitSystem(CUSTOM[0], CUSTOM[1], CUSTOM[2], CUSTOM[3], temperature_unit=CUSTOM[4])
    ns = {}
    add_constants(ns, UnitRegistry(unit_system=CUSTOM[0]))
    out.append(("sys:" + CUSTOM[0], ns))
    return out


def canonical_order(table, ns):
    """Keys of a namespace in an order that does not depend on dict insertion order: the rows of
    `physical_constants`, within a row the alternate names then the name, within a name the
    bare key, `_mks`, `_cgs` (and `hmks`, `hcgs` after `h`).  Keys this scheme does not know
    come last, sorted — the Lean side then rejects the namespace (unexpected name)."""
    order = []
    for cname, (_v, _u, aliases) in table.items():
        for n in list(aliases) + [cname]:
            cand = [n, n + "_mks", n + "_cgs"]
            if n == "h":
                cand += ["hmks", "hcgs"]
            for k in cand:
                if k in ns and k not in order:
                    order.append(k)
    seen = set(order)
    order += sorted(k for k in ns if k not in seen)
    return order


def unit_factors(expr):
    """sympy unit expression -> [(symbol, Fraction)] (coefficient must be 1), sorted by symbol"""
    import sympy
    from fractions import Fraction

    coeff, rest = sympy.sympify(expr).as_coeff_Mul()
    if coeff != 1:
        raise ValueError(f"unit expression with a coefficient: {expr}")
    out = []
    for base, p in rest.as_powers_dict().items():
        if base == 1:
            continue
        p = sympy.Rational(p)
        if not isinstance(base, sympy.Symbol):
            raise ValueError(f"non-symbol factor {base!r} in {expr}")
        out.append((str(base), Fraction(int(p.p), int(p.q))))
    return sorted(out)


def row_of(X, q):
    import numpy as np

    v = np.asarray(q.value)
    if v.shape != ():
        raise ValueError(f"constant is not a scalar: {q!r}")
    if float(q.units.base_offset) != 0.0:
        raise ValueError(f"constant in an offset unit: {q!r}")
    return X.bits(float(v)), X.bits(float(q.units.base_value)), X.dim_vec(q.units.dimensions)


def generate(X):
    from unyt._unit_lookup_table import physical_constants as table
    from unyt.unit_object import Unit, em_conversions
    from unyt.unit_registry import UnitRegistry

    reg = UnitRegistry()
    crow, jconst = [], {}
    for name, (value, unit_name, aliases) in table.items():
        u = Unit(unit_name, registry=reg)
        vec = X.dim_vec(u.dimensions)
        fs = unit_factors(u.expr)
        crow.append(
            f"  ⟨⟨{X.lstr(name)}, [" + ", ".join(X.lstr(a) for a in aliases) + f"], {X.ldim(vec)}, {X.lstr(unit_name)}⟩, "
            f"{X.bits(float(value))}, {X.bits(float(u.base_value))}, ["
            + ", ".join(f"({X.lstr(sym)}, {X.lrat(q)})" for sym, q in fs) + "]⟩"
        )
        jconst[name] = [X.bits(float(value)), X.bits(float(u.base_value)), X.jdim(vec), unit_name, list(aliases),
                        [[sym, str(q)] for sym, q in fs]]
    em = []
    for (uname, dims), (_d2, _u2, _f) in em_conversions.items():
        em.append(f"  ({X.lstr(uname)}, {X.ldim(X.dim_vec(dims))})")
    blocks, jspaces, ids = [], {}, []
    for i, (sid, ns) in enumerate(spaces_live()):
        rows = []
        js = {}
        for k in canonical_order(table, ns):
            q = ns[k]
            vb, sb, vec = row_of(X, q)
            rows.append(f"  ⟨{X.lstr(k)}, {vb}, {sb}, {X.ldim(vec)}⟩")
            js[k] = [vb, sb, X.jdim(vec)]
        blocks.append(f"def space{i} : List MatRow := [\n" + ",\n".join(rows) + "\n]\n")
        ids.append((sid, i))
        jspaces[sid] = js
    text = (
        X.header("UnytModel.PhysicalConstants")
        + "namespace Unyt.Generated\n\n"
        + "/-- a row of `physical_constants` with the bits of its value and of the SI scale of its unit -/\n"
        + "structure ConstRow where\n  spec : ConstSpec\n  value : Nat\n  unitScale : Nat\n"
        + "  /-- the unit string as a product of powers of unit symbols (sympy's reading of it) -/\n"
        + "  unitFactors : List (String × Rat)\n\n"
        + "/-- a materialised constant: name in its namespace, bits of the value, bits of the unit's SI scale, dimension -/\n"
        + "structure MatRow where\n  name : String\n  value : Nat\n  scale : Nat\n  dim : Dim\n\n"
        + "/-- `unyt._unit_lookup_table.physical_constants` -/\n"
        + "def constTable : List ConstRow := [\n" + ",\n".join(crow) + "\n]\n\n"
        + "/-- keys of `unit_object.em_conversions`: (unit, dimension) -/\n"
        + "def emUnits : List (String × Dim) := [\n" + ",\n".join(em) + "\n]\n\n"
        + "\n".join(blocks)
        + "\n/-- namespace id ↦ materialised rows: `pc` = unyt.physical_constants, `top` = the quantities of the\n"
        + "    top-level namespace, `fresh` = add_constants on UnitRegistry(), `sys:<s>` = add_constants on\n"
        + "    UnitRegistry(unit_system=s) for each built-in system and a custom one -/\n"
        + "def spaces : List (String × List MatRow) := ["
        + ", ".join(f"({X.lstr(sid)}, space{i})" for sid, i in ids)
        + "]\n\nend Unyt.Generated\n"
    )
    X.write_if_changed(os.path.join(X.GEN, "C15Constants.lean"), text)
    return {"const": jconst, "spaces": jspaces, "custom": list(CUSTOM)}
