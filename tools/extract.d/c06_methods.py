"""Translator plugin for C06 (ndarray-method overrides): regenerates lean/UnytModel/Generated/C06Methods.lean
from the LIVE classes unyt.unyt_array / unyt.unyt_quantity (harness/c06_methods.py):

* `methodOverrides`: every value-carrying ndarray method the classes redefine;
* `methodRows`: per override and delegate call site an `Np.Row` (kernel delegated to; fate of every parameter
  the override accepts), from an ast pass over the live source;
* `methodExits`: the override's pre-delegation decision logic (harness/c06_alias.py:static_exits — identity
  tests, kernel-free constant returns).
"""
import os
import sys
import warnings


def generate(X):
    warnings.simplefilter("ignore")
    harness = os.path.join(os.path.dirname(os.path.dirname(os.path.dirname(os.path.abspath(__file__)))), "harness")
    if harness not in sys.path:
        sys.path.insert(0, harness)
    import unyt

    import c06_alias as A
    import c06_methods as M

    L = X.lstr
    uni = M.override_universe()
    recs, exits = [], {}
    for cn, n in uni:
        cls = getattr(unyt, cn)
        recs.extend(M.method_static(cls, n))
        ex = [e for e in A.static_exits(cls.__dict__[n]) if e["kind"] == "identity"]
        exits[f"{cn}.{n}"] = ex

    def lrow(r):
        cs = f"(true, {L(r['target'])})" if r["target"] else ""
        ps = ", ".join(f"({L(p)}, .{v})" for p, v in r["params"])
        bv = ", ".join(L(p) for p in r["by_value"])
        return f"  ⟨{L(r['func'])}, {L(r['variant'])}, {L(r['receiver'])}, false, [{cs}], [{ps}], [{bv}], .{'id' if r['target'] else 'none'}⟩"

    def lexit(e):
        return f"⟨.{e['kind']}, {'true' if e['raises'] else 'false'}, {L(e['src'][:120])}⟩"

    text = (
        X.header("UnytModel.NpAlias")
        + "namespace Unyt.Generated\nopen Unyt.Np\n\n"
        + "/-- value-carrying ndarray methods redefined by unyt_array / unyt_quantity (live `__dict__`s) -/\n"
        + "def methodOverrides : List String := [" + ", ".join(L("ndarray." + n) for n in sorted({n for _c, n in uni})) + "]\n\n"
        + "/-- per override × delegate call site (ast over the live source); `sig` holds the receiver kind -/\n"
        + "def methodRows : List Np.Row := [\n" + ",\n".join(lrow(r) for r in recs) + "\n]\n\n"
        + "/-- identity / memory-overlap tests inside the overrides -/\n"
        + "def methodExits : List (String × List Np.Exit) := [\n"
        + ",\n".join(f"  ({L(k)}, [{', '.join(lexit(e) for e in es)}])" for k, es in exits.items()) + "\n]\n"
        + "\nend Unyt.Generated\n"
    )
    X.write_if_changed(os.path.join(X.GEN, "C06Methods.lean"), text)
    return {"overrides": [list(u) for u in uni], "rows": recs, "exits": exits}
