"""Translator plugin for C06 (aliasing / early exits): regenerates
lean/UnytModel/Generated/C06Alias.lean from the live unyt/_array_functions.py:

* `handlerExits`: per handler the pre-kernel decision logic found by the ast pass
  harness/c06_alias.py:static_exits (identity tests between local objects anywhere in the handler or its
  helpers; kernel-free constant returns in front of the kernel call, classified units / other);
* `aliasRows`: dynamic trace (harness/c06_trace.py) of every handler on the derived catalogue
  templates `@alias` (same object in two operand slots), `@alias-nan` (… holding a NaN) and `@mixed`
  (operands in different units, for handlers with a constant-return exit), data seeds 0 and 1.
"""
import os
import sys
import warnings


def generate(X):
    warnings.simplefilter("ignore")
    harness = os.path.join(os.path.dirname(os.path.dirname(os.path.dirname(os.path.abspath(__file__)))), "harness")
    if harness not in sys.path:
        sys.path.insert(0, harness)
    import numpy as np

    np.seterr(all="ignore")
    import npcatalog as C
    import c06_alias as A
    import c06_trace as TR
    import unyt._array_functions as AF

    A.register()
    L = X.lstr
    handled = {}
    for f, h in AF._HANDLED_FUNCTIONS.items():
        n = C.name_of(f)
        if n:
            handled[n] = h
    exits = {n: A.static_exits(h) for n, h in sorted(handled.items())}

    rows = []
    seen = set()
    for t in C.templates("function"):
        kind = A.kind_of(t)
        if kind is None:
            continue
        name = C.canonical_func(t)
        if name not in handled:
            continue
        for sc in t.shapes:
            for dk in t.dtypes:
                for om in (("unyt", "bare") if t.out_form else ("unyt",)):
                    for dseed in (0, 1):
                        r = TR.trace_case(t, dk, sc, dseed, om)
                        if r is None or not r["entered"] or r["entered"][0] != name:
                            continue
                        raised = r["outcome"] != "ok"
                        if raised and not r["calls"]:
                            continue  # the handler refused before any computation: allowed by the property
                        slots = tuple(A.slots_of(t.instantiate(dk, sc, dseed)))
                        key = (name, t.variant, r["sig"], raised, tuple(r["calls"]), tuple(r["params"]),
                               tuple(r["by_value"]), r["post"], slots, kind == "mixed")
                        if key not in seen:
                            seen.add(key)
                            rows.append(key)

    def lrow(k):
        name, variant, sig, raised, calls, params, byv, post, slots, mixed = k
        cs = ", ".join(f"({'true' if via == 'impl' else 'false'}, {L(tg)})" for via, tg in calls)
        ps = ", ".join(f"({L(p)}, .{v})" for p, v in params)
        bv = ", ".join(L(p) for p in byv)
        sl = ", ".join(f"({L(p)}, {i})" for p, i in slots)
        return (f"  ⟨⟨{L(name)}, {L(variant)}, {L(sig)}, {'true' if raised else 'false'}, [{cs}], [{ps}], [{bv}], .{post}⟩, "
                f"[{sl}], {'true' if mixed else 'false'}⟩")

    def lexit(e):
        return f"⟨.{e['kind']}, {'true' if e['raises'] else 'false'}, {L(e['src'][:120])}⟩"

    text = (
        X.header("UnytModel.NpAlias")
        + "namespace Unyt.Generated\nopen Unyt.Np\n\n"
        + "/-- per handler (key of `_HANDLED_FUNCTIONS`): identity tests and pre-kernel constant-return exits (ast) -/\n"
        + "def handlerExits : List (String × List Np.Exit) := [\n"
        + ",\n".join(f"  ({L(n)}, [{', '.join(lexit(e) for e in es)}])" for n, es in exits.items())
        + "\n]\n\n"
        + "/-- traces of the handlers on aliased (`f(x, x)`), aliased-with-NaN and mixed-unit call forms -/\n"
        + "def aliasRows : List Np.AliasRow := [\n" + ",\n".join(lrow(k) for k in rows) + "\n]\n"
        + "\nend Unyt.Generated\n"
    )
    A.unregister()
    X.write_if_changed(os.path.join(X.GEN, "C06Alias.lean"), text)
    return {
        "exits": exits,
        "rows": [dict(func=k[0], variant=k[1], sig=k[2], raised=k[3], calls=list(k[4]), params=list(k[5]),
                      by_value=list(k[6]), post=k[7], slots=list(k[8]), mixed=k[9]) for k in rows],
    }
