"""C17 translator plugin: regenerates lean/UnytModel/Generated/DtypeTables.lean

  * `liveRules`   — the constants of unyt's dtype code, read from the *source* of
                    /repo/unyt/array.py with `ast` (in_units, convert_to_units, __array_ufunc__)
                    and the live `LARGE_INPUT` object;
  * `liveNumpy`   — the NumPy facts the code relies on (which dtype strings exist, weak-scalar
                    promotion, in-place casting, result_type, same_kind casting, float(0-d));
  * `observed…`   — what the live library returns for every dtype of the universe on every route,
                    every dtype pair of a mixed-unit `np.add`, and every `out=` buffer dtype
                    (result dtype or exception class), for the kernel-checked obligation
                    "the model agrees with the code on the whole finite domain".
"""
import ast
import inspect
import os
import re
import warnings

import numpy as np

KINDS = "iufcb"
SIZES = (1, 2, 4, 8, 16, 32)


def universe():
    out = []
    for k in KINDS:
        for s in SIZES:
            try:
                d = np.dtype(k + str(s))
            except TypeError:
                continue
            if d.kind == k and d.itemsize == s:
                out.append(d)
    return out


def key(d):
    d = np.dtype(d)
    return [d.kind, d.itemsize]


def ldt(d):
    k, s = key(d)
    return f"⟨.{k}, {s}⟩"


def exc_class(e):
    # canonical class: the first of these the exception is an instance of
    for c in (TypeError, ValueError, RuntimeError, KeyError):
        if isinstance(e, c):
            return c.__name__
    return type(e).__name__


LEAN_ERR = {"TypeError": ".TypeError", "ValueError": ".ValueError", "RuntimeError": ".RuntimeError", "KeyError": ".KeyError",
            "UnitConversionError": ".UnitConversionError", "InvalidUnitEquivalence": ".InvalidUnitEquivalence",
            "UnitOperationError": ".UnitOperationError", "InvalidUnitOperation": ".InvalidUnitOperation"}


def lerr(name):
    return LEAN_ERR.get(name, ".Other")


# ------------------------------------------------------------------------------------------
# source shapes (ast)


def _modfunc(tree, name):
    """module-level function, or None"""
    for node in tree.body:
        if isinstance(node, ast.FunctionDef) and node.name == name:
            return node
    return None


def _func(tree, cls, name):
    for node in ast.walk(tree):
        if isinstance(node, ast.ClassDef) and node.name == cls:
            for f in node.body:
                if isinstance(f, ast.FunctionDef) and f.name == name:
                    return f
    raise LookupError(f"{cls}.{name} not found in array.py")


def _find(fn, pattern, what, all_=False):
    """unparse every statement/expression node of `fn`, return the regex match(es) of `pattern`"""
    rx = re.compile(pattern)
    hits = []
    for node in ast.walk(fn):
        if isinstance(node, (ast.stmt, ast.expr)):
            try:
                s = ast.unparse(node)
            except Exception:
                continue
            if isinstance(node, (ast.If,)):
                s = "if " + ast.unparse(node.test) + ":"
            m = rx.fullmatch(s.split("\n")[0]) if isinstance(node, ast.stmt) else rx.fullmatch(s)
            if m:
                hits.append((node, m))
    if not hits:
        raise LookupError(f"source shape not recognised: {what} (/{pattern}/ in {fn.name})")
    return hits if all_ else hits[0]


def _find_opt(fn, pattern, all_=False):
    try:
        return _find(fn, pattern, "", all_)
    except LookupError:
        return None


def _kinds(tuple_src):
    vals = ast.literal_eval(tuple_src)
    return [str(v) for v in vals]


def source_rules(repo):
    path = os.path.join(repo, "unyt", "array.py")
    tree = ast.parse(open(path, encoding="utf-8").read())
    R = {}
    f = _func(tree, "unyt_array", "in_units")
    _n, m = _find(f, r"dsize = max\((\d+), self\.dtype\.itemsize\)", "in_units: dsize = max(2, itemsize)")
    R["copyMinSize"] = int(m.group(1))
    _n, m = _find(f, r"if self\.dtype\.kind in (\([^)]*\)):", "in_units: integer-kind test")
    R["copyIntKinds"] = _kinds(m.group(1))
    _n, m = _find(f, r"new_dtypekind = '(\w)' if self\.dtype\.kind == '(\w)' else '(\w)'", "in_units: result kind")
    R["copyThenKind"], R["copyTestKind"], R["copyElseKind"] = m.group(1), m.group(2), m.group(3)
    _find(f, r"new_dtype = np\.dtype\(new_dtypekind \+ str\(dsize\)\)", "in_units: np.dtype(kind + str(dsize))")
    _find(f, r"ret = np\.asarray\(self\.ndview \* conversion_factor, dtype=new_dtype\)", "in_units: float product then cast")
    _find(f, r"large = LARGE_INPUT\.get\(dsize, 0\)", "in_units: LARGE_INPUT lookup")
    _n, m = _find(f, r"if large and np\.any\(np\.abs\(self\.d\) (>=|>) large\):", "in_units: LARGE_INPUT test")
    R["largeStrictCopy"] = m.group(1) == ">"

    f = _func(tree, "unyt_array", "convert_to_units")
    _n, m = _find(f, r"if self\.dtype\.kind in (\([^)]*\)):", "convert_to_units: integer-kind test")
    R["inplaceIntKinds"] = _kinds(m.group(1))
    _find(f, r"dsize = values\.dtype\.itemsize", "convert_to_units: dsize = itemsize")
    node, m = _find(f, r"if dsize == (\d+):", "convert_to_units: 1-byte refusal")
    R["inplaceRefuseSize"] = int(m.group(1))
    rs = [n for n in node.body if isinstance(n, ast.Raise)]
    if not rs:
        raise LookupError("convert_to_units: the 1-byte branch does not raise")
    R["inplaceRefuseError"] = ast.unparse(rs[0].exc.func) if isinstance(rs[0].exc, ast.Call) else ast.unparse(rs[0].exc)
    _n, m = _find(f, r"new_dtype = '(\w)' \+ str\(dsize\)", "convert_to_units: 'f' + str(dsize)")
    R["inplaceKind"] = m.group(1)
    _find(f, r"float_values = values\.astype\(new_dtype\)", "convert_to_units: astype(new_dtype)")
    _find(f, r"np\.copyto\(values, float_values\)", "convert_to_units: copyto")
    _find(f, r"values \*= conv_factor", "convert_to_units: values *= conv_factor")
    _find(f, r"large = LARGE_INPUT\.get\(dsize, 0\)", "convert_to_units: LARGE_INPUT lookup")
    _n, m = _find(f, r"if large and np\.any\(np\.abs\(values\) (>=|>) large\):", "convert_to_units: LARGE_INPUT test")
    R["largeStrictInplace"] = m.group(1) == ">"
    if R["largeStrictCopy"] != R["largeStrictInplace"]:
        raise LookupError("in_units and convert_to_units compare with LARGE_INPUT differently (> vs >=): not modelled")
    R["largeStrict"] = R["largeStrictCopy"]

    f = _func(tree, "unyt_array", "__array_ufunc__")
    # the out= promotion: in the helper `_float_out_view(out)` that `__array_ufunc__` calls just before
    # the kernel (unary and binary paths), or — older trees — inline at the top of `__array_ufunc__`
    g = _modfunc(tree, "_float_out_view")
    if g is not None:
        if [a.arg for a in g.args.args] != ["out"]:
            raise LookupError("_float_out_view: unexpected signature")
        calls = _find(f, r"out_func = _float_out_view\(out\)", "__array_ufunc__: out_func = _float_out_view(out)", all_=True)
        if len(calls) < 2:
            raise LookupError("__array_ufunc__: _float_out_view(out) is not called on both the unary and the binary path")
        _find(g, r"return out\.view\(np\.ndarray\)", "_float_out_view: returns the ndarray view of out")
        R["outWhere"] = "_float_out_view"
    else:
        g = f
        R["outWhere"] = "__array_ufunc__"
    _n, m = _find(g, r"if out\.dtype\.kind in (\([^)]*\)):", "out= promotion: integer-kind test")
    R["outIntKinds"] = _kinds(m.group(1))
    _n, m = _find(g, r"new_dtype = '(\w)' \+ str\(out\.dtype\.itemsize\)", "out= promotion: 'f' + itemsize")
    R["outKind"] = m.group(1)
    _find(g, r"float_values = out\.astype\(new_dtype\)", "out= promotion: astype(new_dtype)")
    _find(g, r"out\.dtype = new_dtype", "out= promotion: relabel")
    _find(g, r"np\.copyto\(out, float_values\)", "out= promotion: copyto")
    hit = _find_opt(f, r"new_dtype = np\.dtype\('(\w)' \+ str\(inp1\.dtype\.itemsize\)\)")
    if hit is not None:
        # the kind character is a constant: (then, test, else) with then = else
        R["binaryThenKind"] = R["binaryElseKind"] = hit[1].group(1)
        R["binaryTestKind"] = "c"
    else:
        _n, m = _find(f, r"new_dtypekind = '(\w)' if inp1\.dtype\.kind == '(\w)' else '(\w)'", "__array_ufunc__: second operand kind")
        R["binaryThenKind"], R["binaryTestKind"], R["binaryElseKind"] = m.group(1), m.group(2), m.group(3)
        _find(f, r"new_dtype = np\.dtype\(new_dtypekind \+ str\(inp1\.dtype\.itemsize\)\)", "__array_ufunc__: second operand dtype")
    _find(f, r"inp1 = np\.asarray\(inp1, dtype=new_dtype\) \* conv", "__array_ufunc__: second operand float product")

    f = _func(tree, "unyt_array", "in_base")
    if _find_opt(f, r"ret = self\.v \* conv") is not None:
        R["inBaseItemSize"] = False  # plain NumPy promotion, no dtype code, no LARGE_INPUT test
    else:
        # the same dtype code as in_units, literally
        _n, m = _find(f, r"dsize = max\((\d+), self\.dtype\.itemsize\)", "in_base: dsize = max(2, itemsize)")
        _n, m2 = _find(f, r"if self\.dtype\.kind in (\([^)]*\)):", "in_base: integer-kind test")
        _n, m3 = _find(f, r"new_dtypekind = '(\w)' if self\.dtype\.kind == '(\w)' else '(\w)'", "in_base: result kind")
        _n, m4 = _find(f, r"if large and np\.any\(np\.abs\(self\.d\) (>=|>) large\):", "in_base: LARGE_INPUT test")
        _find(f, r"large = LARGE_INPUT\.get\(dsize, 0\)", "in_base: LARGE_INPUT lookup")
        _find(f, r"new_dtype = np\.dtype\(new_dtypekind \+ str\(dsize\)\)", "in_base: np.dtype(kind + str(dsize))")
        _find(f, r"ret = np\.asarray\(self\.v \* conv, dtype=new_dtype\)", "in_base: float product then cast")
        same = (int(m.group(1)) == R["copyMinSize"] and _kinds(m2.group(1)) == R["copyIntKinds"]
                and (m3.group(1), m3.group(2), m3.group(3)) == (R["copyThenKind"], R["copyTestKind"], R["copyElseKind"])
                and (m4.group(1) == ">") == R["largeStrictCopy"])
        if not same:
            raise LookupError("in_base has dtype code of its own that differs from in_units: not modelled")
        R["inBaseItemSize"] = True
    f = _func(tree, "unyt_array", "to_value")
    _find(f, r"return float\(v\)", "to_value: float(v) for quantities")
    R["toValueComplex"] = False
    if _find_opt(f, r"return complex\(v\)") is not None:
        _find(f, r"if v\.dtype\.kind == 'c':", "to_value: complex branch test")
        R["toValueComplex"] = True
    return R


# ------------------------------------------------------------------------------------------
# NumPy facts


def numpy_facts(U):
    F = {"dtypes": [key(d) for d in U], "mulPyFloat": [], "imulPyFloatOk": [], "resultType": [], "canCastSameKind": [], "floatOf0d": []}
    with warnings.catch_warnings():
        warnings.simplefilter("ignore")
        for d in U:
            r = (np.zeros(2, d) * 1.5).dtype
            r0 = np.asarray(np.zeros((), d) * 1.5).dtype
            if r != r0:
                raise RuntimeError(f"0-d and n-d promotion with a Python float differ for {d}")
            F["mulPyFloat"].append([key(d), key(r)])
            try:
                a = np.zeros(2, d)
                a *= 1.5
                F["imulPyFloatOk"].append(key(d))
            except TypeError:
                pass
        for a in U:
            for b in U:
                try:
                    r = np.add(np.zeros(2, a), np.zeros(2, b)).dtype
                except TypeError:
                    continue
                F["resultType"].append([key(a), key(b), key(r)])
                if b.kind == "f":
                    for uf in (np.subtract, np.maximum, np.minimum, np.fmax, np.fmin):
                        try:
                            r2 = uf(np.zeros(2, a), np.zeros(2, b)).dtype
                        except TypeError:
                            r2 = None
                        if r2 != r:
                            raise RuntimeError(f"{uf.__name__}({a},{b}) -> {r2}, add -> {r}")
                if np.can_cast(a, b, "same_kind"):
                    F["canCastSameKind"].append([key(a), key(b)])
    for d in U:
        with warnings.catch_warnings(record=True) as w:
            warnings.simplefilter("always")
            try:
                float(np.zeros((), d))
                o = "okComplexWarning" if any("Complex" in x.category.__name__ for x in w) else "ok"
            except TypeError:
                o = "typeError"
        F["floatOf0d"].append([key(d), o])
    return F


# ------------------------------------------------------------------------------------------
# observed behaviour of the live library over the finite domain

ROUTES = ["to", "in_units", "to_value", "in_base", "convert_to_units", "convert_to_base", "to_equivalent", "convert_to_equivalent"]


def observe(U):
    import unyt
    from unyt import unyt_array, unyt_quantity

    def mk(d, isq, unit):
        if isq:
            return unyt_quantity(np.array(1, dtype=d), unit)
        return unyt_array(np.array([1, 1], dtype=d), unit)

    def outcome(f):
        with warnings.catch_warnings():
            warnings.simplefilter("ignore")
            try:
                r = f()
            except Exception as e:  # noqa: BLE001
                return ["err", exc_class(e)]
        if type(r) is float:
            return ["ok", "f", 8]
        if type(r) is complex:
            return ["ok", "c", 16]
        return ["ok"] + key(np.asarray(r).dtype)

    def inplace(x, meth, *a, **k):
        getattr(x, meth)(*a, **k)
        return x

    obs_routes = []
    for d in U:
        for isq in (False, True):
            calls = {
                "to": lambda: mk(d, isq, "km").to("m"),
                "in_units": lambda: mk(d, isq, "km").in_units("m"),
                "to_value": lambda: mk(d, isq, "km").to_value("m"),
                "in_base": lambda: mk(d, isq, "km").in_base("cgs"),
                "convert_to_units": lambda: inplace(mk(d, isq, "km"), "convert_to_units", "m"),
                "convert_to_base": lambda: inplace(mk(d, isq, "km"), "convert_to_base", "cgs"),
                "to_equivalent": lambda: mk(d, isq, "K").to_equivalent("eV", "thermal"),
                "convert_to_equivalent": lambda: inplace(mk(d, isq, "K"), "convert_to_equivalent", "eV", "thermal"),
            }
            for r in ROUTES:
                obs_routes.append([r, key(d), isq, outcome(calls[r])])
    obs_binary = []
    for a in U:
        for b in U:
            obs_binary.append([key(a), key(b), outcome(lambda: np.add(mk(a, False, "m"), mk(b, False, "km")))])
    obs_out = []
    for o in U:
        def call():
            buf = unyt_array(np.zeros(2, dtype=o), "m")
            np.add(mk("f8", False, "m"), mk("f8", False, "km"), out=buf)
            return buf
        obs_out.append([key(o), outcome(call)])
    return obs_routes, obs_binary, obs_out


# ------------------------------------------------------------------------------------------


def lkind(k):
    if k not in KINDS:
        raise ValueError(f"dtype kind {k!r} outside the modelled kinds")
    return "." + k


def lout(o):
    if o[0] == "ok":
        return f"(.ok ⟨.{o[1]}, {o[2]}⟩)"
    return f"(.error {lerr(o[1])})"


def generate(X):
    import unyt.array as UA

    U = universe()
    R = source_rules(X.REPO)
    if R["inplaceRefuseError"] != "ValueError":
        raise LookupError(f"convert_to_units refuses 1-byte items with {R['inplaceRefuseError']}, model has ValueError")
    large = sorted((int(k), int(v)) for k, v in UA.LARGE_INPUT.items())
    F = numpy_facts(U)
    obs_routes, obs_binary, obs_out = observe(U)

    def dl(k):
        return f"⟨.{k[0]}, {k[1]}⟩"

    L = [X.header("UnytModel.Dtype"), "namespace Unyt.Generated\nopen Unyt\n"]
    L.append("/-- constants of the dtype code in /repo/unyt/array.py (ast) and the live LARGE_INPUT -/")
    L.append("def liveRules : DtypeRules where")
    L.append(f"  copyMinSize := {R['copyMinSize']}")
    L.append(f"  copyIntKinds := [{', '.join(lkind(k) for k in R['copyIntKinds'])}]")
    L.append(f"  copyTestKind := {lkind(R['copyTestKind'])}")
    L.append(f"  copyThenKind := {lkind(R['copyThenKind'])}")
    L.append(f"  copyElseKind := {lkind(R['copyElseKind'])}")
    L.append(f"  inplaceIntKinds := [{', '.join(lkind(k) for k in R['inplaceIntKinds'])}]")
    L.append(f"  inplaceRefuseSize := {R['inplaceRefuseSize']}")
    L.append(f"  inplaceKind := {lkind(R['inplaceKind'])}")
    L.append(f"  binaryTestKind := {lkind(R['binaryTestKind'])}")
    L.append(f"  binaryThenKind := {lkind(R['binaryThenKind'])}")
    L.append(f"  binaryElseKind := {lkind(R['binaryElseKind'])}")
    L.append(f"  largeStrict := {'true' if R['largeStrict'] else 'false'}")
    L.append(f"  inBaseItemSize := {'true' if R['inBaseItemSize'] else 'false'}")
    L.append(f"  toValueComplex := {'true' if R['toValueComplex'] else 'false'}")
    L.append(f"  outIntKinds := [{', '.join(lkind(k) for k in R['outIntKinds'])}]")
    L.append(f"  outKind := {lkind(R['outKind'])}")
    L.append(f"  largeInput := [{', '.join(f'({k}, {v})' for k, v in large)}]")
    L.append("")
    L.append(f"/-- NumPy {np.__version__} facts -/")
    L.append("def liveNumpy : NumpyFacts where")
    L.append(f"  dtypes := [{', '.join(dl(k) for k in F['dtypes'])}]")
    L.append(f"  mulPyFloat := [{', '.join(f'({dl(a)}, {dl(b)})' for a, b in F['mulPyFloat'])}]")
    L.append(f"  imulPyFloatOk := [{', '.join(dl(k) for k in F['imulPyFloatOk'])}]")
    L.append("  resultType := [\n    " + ",\n    ".join(f"(({dl(a)}, {dl(b)}), {dl(r)})" for a, b, r in F["resultType"]) + "]")
    L.append("  canCastSameKind := [\n    " + ",\n    ".join(f"({dl(a)}, {dl(b)})" for a, b in F["canCastSameKind"]) + "]")
    L.append(f"  floatOf0d := [{', '.join(f'({dl(k)}, .{o})' for k, o in F['floatOf0d'])}]")
    L.append("")
    L.append("/-- observed on the live library: (route, dtype, is-quantity) ↦ result dtype or exception class -/")
    L.append("def observedRoutes : List (Route × Dtype × Bool × Except Err Dtype) := [")
    rn = {"to": ".to", "in_units": ".inUnits", "to_value": ".toValue", "in_base": ".inBase", "convert_to_units": ".convertToUnits",
          "convert_to_base": ".convertToBase", "to_equivalent": ".toEquivalent", "convert_to_equivalent": ".convertToEquivalent"}
    L.append(",\n".join(f"  ({rn[r]}, {dl(k)}, {'true' if q else 'false'}, {lout(o)})" for r, k, q, o in obs_routes) + "]")
    L.append("")
    L.append("/-- observed: np.add(x[d0] m, y[d1] km) ↦ result dtype or exception class -/")
    L.append("def observedBinary : List (Dtype × Dtype × Except Err Dtype) := [")
    L.append(",\n".join(f"  ({dl(a)}, {dl(b)}, {lout(o)})" for a, b, o in obs_binary) + "]")
    L.append("")
    L.append("/-- observed: np.add(x[f8] m, y[f8] km, out=buf[o]) ↦ dtype of buf afterwards or exception class -/")
    L.append("def observedOut : List (Dtype × Except Err Dtype) := [")
    L.append(",\n".join(f"  ({dl(k)}, {lout(o)})" for k, o in obs_out) + "]")
    L.append("\nend Unyt.Generated\n")
    X.write_if_changed(os.path.join(X.GEN, "DtypeTables.lean"), "\n".join(L))
    return {"rules": R, "large_input": {str(k): v for k, v in large}, "numpy": F, "numpy_version": np.__version__,
            "observed_routes": obs_routes, "observed_binary": obs_binary, "observed_out": obs_out,
            "universe": [key(d) for d in U]}
