"""C04 translator plugin: the ufunc -> unit-rule table and the branch conditions of
`unyt_array.__array_ufunc__`, regenerated from the live objects / the live source.

Writes lean/UnytModel/Generated/C04Ufuncs.lean:
  * ufuncRules           `unyt_array._ufunc_registry` by `__name__` (live object)
  * trigOperators, unaryOperators, binaryOperators, multipleOutput (live objects)
  * powerMapping         POWER_MAPPING[ufunc](n) sampled at n = 0..8 (live lambdas)
  * convRules / postMulRules / reducePowerUfuncs / eqNeUfuncs
                         the tuples tested in `__array_ufunc__` (`unit_operator in (...)`,
                         `ufunc in (multiply, divide) and method == "reduce"`, `ufunc in (equal,
                         not_equal)`), read off the source with `ast` and resolved through the
                         module globals
  * ruleProbes           every distinct rule function called on probe units of a private
                         registry (what the rule *does*, not just what it is called)
"""
import ast
import inspect
import os
import textwrap
from fractions import Fraction


def _names(tup, glob):
    out = []
    for el in tup.elts:
        if not isinstance(el, ast.Name):
            raise ValueError(f"tuple element is not a name: {ast.dump(el)}")
        obj = glob[el.id]
        out.append(getattr(obj, "__name__", el.id))
    return out


def _scan_array_ufunc(arr_mod):
    """the literal tuples `__array_ufunc__` branches on"""
    src = textwrap.dedent(inspect.getsource(arr_mod.unyt_array.__array_ufunc__))
    tree = ast.parse(src)
    glob = vars(arr_mod)
    unit_operator_in = []
    reduce_power = None
    eq_ne = None
    tuple_outputs = None
    for node in ast.walk(tree):
        if isinstance(node, ast.Compare) and len(node.ops) == 1 and isinstance(node.ops[0], ast.In):
            left, right = node.left, node.comparators[0]
            if isinstance(left, ast.Name) and isinstance(right, ast.Tuple):
                if left.id == "unit_operator":
                    unit_operator_in.append((node.lineno, _names(right, glob)))
        if isinstance(node, ast.BoolOp) and isinstance(node.op, ast.And):
            vals = node.values
            if (len(vals) == 2 and isinstance(vals[0], ast.Compare) and isinstance(vals[0].left, ast.Name)
                    and vals[0].left.id == "ufunc" and isinstance(vals[0].ops[0], ast.In)
                    and isinstance(vals[0].comparators[0], ast.Tuple)
                    and isinstance(vals[1], ast.Compare) and isinstance(vals[1].left, ast.Name)
                    and vals[1].left.id == "method" and isinstance(vals[1].ops[0], ast.Eq)
                    and isinstance(vals[1].comparators[0], ast.Constant)
                    and vals[1].comparators[0].value == "reduce"):
                reduce_power = _names(vals[0].comparators[0], glob)
    # `if ufunc in (equal, not_equal):` and `elif ufunc in (modf, divmod_):`
    for node in ast.walk(tree):
        if isinstance(node, ast.If):
            t = node.test
            if (isinstance(t, ast.Compare) and isinstance(t.left, ast.Name) and t.left.id == "ufunc"
                    and len(t.ops) == 1 and isinstance(t.ops[0], ast.In) and isinstance(t.comparators[0], ast.Tuple)):
                nm = _names(t.comparators[0], glob)
                if "equal" in nm and eq_ne is None:
                    eq_ne = nm
                elif "modf" in nm and tuple_outputs is None:
                    tuple_outputs = nm
    # `if unit_operator is X and not u0.same_dimensions_as(u1): unit_operator = Y`
    swaps = []
    for node in ast.walk(tree):
        if isinstance(node, ast.If) and isinstance(node.test, ast.BoolOp) and isinstance(node.test.op, ast.And) and len(node.test.values) == 2:
            a, b = node.test.values
            if (isinstance(a, ast.Compare) and isinstance(a.left, ast.Name) and a.left.id == "unit_operator"
                    and len(a.ops) == 1 and isinstance(a.ops[0], ast.Is) and isinstance(a.comparators[0], ast.Name)
                    and isinstance(b, ast.UnaryOp) and isinstance(b.op, ast.Not) and isinstance(b.operand, ast.Call)
                    and isinstance(b.operand.func, ast.Attribute) and b.operand.func.attr == "same_dimensions_as"
                    and len(node.body) == 1 and isinstance(node.body[0], ast.Assign)
                    and isinstance(node.body[0].targets[0], ast.Name) and node.body[0].targets[0].id == "unit_operator"
                    and isinstance(node.body[0].value, ast.Name)):
                swaps.append((glob[a.comparators[0].id].__name__, glob[node.body[0].value.id].__name__))
    # the out= fix-up: `multiply(<buffer>, mul, out=<buffer>)` — on the unyt array `out` (a nested
    # __array_ufunc__ call) or on the raw view `out_func`
    fix_targets = []
    for node in ast.walk(tree):
        if (isinstance(node, ast.Call) and isinstance(node.func, ast.Name) and node.func.id == "multiply"
                and len(node.args) == 2 and isinstance(node.args[0], ast.Name) and isinstance(node.args[1], ast.Name)
                and node.args[1].id == "mul"):
            outs = [k.value.id for k in node.keywords if k.arg == "out" and isinstance(k.value, ast.Name)]
            fix_targets.append((node.args[0].id, outs[0] if outs else None))
    if len(fix_targets) != 1 or fix_targets[0][0] != fix_targets[0][1] or fix_targets[0][0] not in ("out", "out_func"):
        raise ValueError(f"the out= fix-up `multiply(x, mul, out=x)` was not found as expected: {fix_targets}")
    unit_operator_in.sort()
    if len(unit_operator_in) != 2:
        raise ValueError(f"expected two `unit_operator in (...)` tests in __array_ufunc__, found {unit_operator_in}")
    if reduce_power is None or eq_ne is None or tuple_outputs is None:
        raise ValueError("a branch condition of __array_ufunc__ was not found "
                         f"(reduce_power={reduce_power}, eq_ne={eq_ne}, tuple_outputs={tuple_outputs})")
    return {
        "convRules": unit_operator_in[0][1],
        "postMulRules": unit_operator_in[1][1],
        "reducePowerUfuncs": reduce_power,
        "eqNeUfuncs": eq_ne,
        "tupleOutputUfuncs": tuple_outputs,
        "ruleSwaps": swaps,
        "fixupReenters": fix_targets[0][0] == "out",
    }


def D_length():
    import unyt.dimensions as D

    return D.length


def _probe_units():
    import unyt.dimensions as D
    from unyt import Unit
    from unyt.unit_registry import UnitRegistry

    reg = UnitRegistry()
    reg.add("foo", 64.0, D.length)
    reg.add("bar", 0.25, D.length)
    reg.add("baz", 8.0, D.time)
    return {n: Unit(n, registry=reg) for n in ("foo", "bar", "baz")}


PROBES = [("u", ("foo",)), ("same", ("foo", "bar")), ("diff", ("foo", "baz"))]


def generate(X):
    import sys

    sys.path.insert(0, os.path.join(X.VERIF, "harness"))
    import numpy as np
    import sympy
    import unyt.array as arr_mod
    from unyt.array import POWER_MAPPING, multiple_output_operators, trigonometric_operators, unyt_array
    from unyt.array import binary_operators, unary_operators

    reg = unyt_array._ufunc_registry
    rules = [(k.__name__, v.__name__) for k, v in reg.items()]
    names = [r[0] for r in rules]
    if len(set(names)) != len(names):
        raise ValueError("two ufuncs of the registry share a __name__")
    scan = _scan_array_ufunc(arr_mod)
    pm = {}
    for k, f in POWER_MAPPING.items():
        pm[k.__name__] = [(n, int(f(n))) for n in range(0, 9)]
        for n, v in pm[k.__name__]:
            if f(n) != v:
                raise ValueError("POWER_MAPPING is not integer-valued")

    # what every distinct rule function does on probe units
    units = _probe_units()
    funcs = {}
    for _k, v in reg.items():
        funcs.setdefault(v.__name__, v)
    # rules that take an extra scalar argument
    probes = []

    def fac_of(u):
        coeff, rest = sympy.sympify(u.expr).as_coeff_Mul()
        items = []
        for base, p in rest.as_powers_dict().items():
            if base == 1:
                continue
            p = sympy.Rational(p)
            items.append((str(base), Fraction(int(p.p), int(p.q))))
        items.sort()
        return float(coeff), items

    for rname, fn in sorted(funcs.items()):
        for pname, args in PROBES:
            a = [units[n] for n in args]
            extra = []
            if rname == "_power_unit":
                if pname != "u":
                    continue
                extra = [3]
            try:
                mul, unit = fn(*a, *extra)
                mul = Fraction(float(mul))
                if unit is None:
                    rec = ("ok", mul, None)
                else:
                    c, items = fac_of(unit)
                    rec = ("ok", mul, (Fraction(float(unit.base_value)), X.dim_vec(unit.dimensions), Fraction(c), items))
            except Exception as e:  # noqa: BLE001  (a refusing rule is part of its behaviour)
                rec = ("raises", type(e).__name__, None)
            probes.append((rname, pname, rec))

    # how many factors `_apply_power_mapping` counts: exponent given to the probe unit by multiply.reduce
    rprobes = []
    foo = units["foo"]
    for shape in [(3, 3), (2, 5), (4,), (2, 3, 4)]:
        size = int(np.prod(shape))
        kws = [(-2, {}), (-1, {"axis": None})] + [(a, {"axis": a}) for a in range(len(shape))]
        for code, kw in kws:
            _m, u = arr_mod._apply_power_mapping(np.multiply, foo, size, shape, kw)
            e = sympy.Rational(sympy.sympify(u.dimensions).as_powers_dict().get(D_length(), 0))
            rprobes.append((list(shape), code, int(e)))

    def lq(q):
        return X.lrat(q)

    def lprobe(rec):
        if rec[0] == "raises":
            return f".raises {X.lstr(rec[1])}"
        if rec[2] is None:
            return f".bare {lq(rec[1])}"
        s, dv, c, items = rec[2]
        fl = "[" + ", ".join(f"({X.lstr(n)}, {lq(q)})" for n, q in items) + "]"
        return f".unit {lq(rec[1])} {lq(s)} {X.ldim(dv)} {lq(c)} {fl}"

    def lstrs(xs):
        return "[" + ", ".join(X.lstr(x) for x in xs) + "]"

    text = (
        X.header("UnytModel.Dim")
        + "namespace Unyt.Generated.C04\n\n"
        + "/-- `unyt_array._ufunc_registry`: ufunc `__name__` ↦ rule function `__name__` -/\n"
        + "def ufuncRules : List (String × String) := [\n"
        + ",\n".join(f"  ({X.lstr(a)}, {X.lstr(b)})" for a, b in rules)
        + "\n]\n\n"
        + f"/-- `trigonometric_operators` -/\ndef trigOperators : List String := {lstrs([f.__name__ for f in trigonometric_operators])}\n\n"
        + f"/-- `unary_operators` -/\ndef unaryOperators : List String := {lstrs([f.__name__ for f in unary_operators])}\n\n"
        + f"/-- `binary_operators` -/\ndef binaryOperators : List String := {lstrs([f.__name__ for f in binary_operators])}\n\n"
        + "/-- `multiple_output_operators` -/\ndef multipleOutput : List (String × Nat) := ["
        + ", ".join(f"({X.lstr(k.__name__)}, {v})" for k, v in multiple_output_operators.items())
        + "]\n\n"
        + "/-- `POWER_MAPPING[ufunc](n)` for n = 0..8 -/\ndef powerMapping : List (String × List (Int × Int)) := [\n"
        + ",\n".join(f"  ({X.lstr(k)}, [" + ", ".join(f"({n}, {v})" for n, v in vs) + "])" for k, vs in pm.items())
        + "\n]\n\n"
        + f"/-- rules whose second operand is converted to the first operand's unit (`__array_ufunc__`) -/\ndef convRules : List String := {lstrs(scan['convRules'])}\n\n"
        + f"/-- rules followed by the post-multiplication / offset refusal block -/\ndef postMulRules : List String := {lstrs(scan['postMulRules'])}\n\n"
        + f"/-- ufuncs whose `reduce` is a power of the unit -/\ndef reducePowerUfuncs : List String := {lstrs(scan['reducePowerUfuncs'])}\n\n"
        + f"/-- comparisons that return early on a dimension mismatch -/\ndef eqNeUfuncs : List String := {lstrs(scan['eqNeUfuncs'])}\n\n"
        + f"/-- ufuncs whose outputs are wrapped as a tuple -/\ndef tupleOutputUfuncs : List String := {lstrs(scan['tupleOutputUfuncs'])}\n\n"
        + "/-- `if unit_operator is X and not u0.same_dimensions_as(u1): unit_operator = Y` -/\ndef ruleSwaps : List (String × String) := ["
        + ", ".join(f"({X.lstr(a)}, {X.lstr(b)})" for a, b in scan["ruleSwaps"])
        + "]\n\n"
        + "/-- the `out=` fix-up is `multiply(out, mul, out=out)` on the unyt array (a nested `__array_ufunc__` call)\n"
        + "    rather than `multiply(out_func, mul, out=out_func)` on the raw buffer (read off the source) -/\n"
        + f"def fixupReenters : Bool := {'true' if scan['fixupReenters'] else 'false'}\n\n"
        + "/-- `_apply_power_mapping(multiply, u, size, shape, kwargs)`: (shape, axis keyword: -2 absent / -1 None / index, exponent) -/\n"
        + "def reduceCountProbes : List (List Nat × Int × Int) := [\n"
        + ",\n".join(f"  ([{', '.join(map(str, sh))}], {code}, {e})" for sh, code, e in rprobes)
        + "\n]\n\n"
        + "/-- outcome of a rule function on probe units -/\ninductive Probe\n"
        + "  | raises (exc : String)\n  | bare (mul : Rat)\n"
        + "  | unit (mul scale : Rat) (dim : Dim) (coeff : Rat) (factors : List (String × Rat))\nderiving DecidableEq, Repr\n\n"
        + "/-- every distinct rule function of the registry on the probe units `foo` (64, length),\n"
        + "    `bar` (1/4, length), `baz` (8, time): `u` = rule(foo), `same` = rule(foo, bar),\n"
        + "    `diff` = rule(foo, baz); `_power_unit` is probed as rule(foo, 3) -/\n"
        + "def ruleProbes : List (String × String × Probe) := [\n"
        + ",\n".join(f"  ({X.lstr(r)}, {X.lstr(p)}, {lprobe(rec)})" for r, p, rec in probes)
        + "\n]\n\nend Unyt.Generated.C04\n"
    )
    X.write_if_changed(os.path.join(X.GEN, "C04Ufuncs.lean"), text)
    return {
        "ufuncRules": dict(rules),
        "trig": [f.__name__ for f in trigonometric_operators],
        "unary": [f.__name__ for f in unary_operators],
        "binary": [f.__name__ for f in binary_operators],
        "multipleOutput": {k.__name__: v for k, v in multiple_output_operators.items()},
        "powerMapping": pm,
        **scan,
        "ruleProbes": [[r, p, list(map(str, rec[:2]))] for r, p, rec in probes],
    }
