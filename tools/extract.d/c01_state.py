"""C01 translator plugin: the process-wide state `unyt_array.__array_ufunc__` keeps between calls —
by an `ast` pass over unyt/array.py.

The property quantifies over programs: a call made after other calls must be refused like the
same call in a fresh interpreter.  `Ufunc.dispatch` is a function of one call; what makes the real
dispatcher a function of the *history* is state that survives a call: module-level (or class-level)
containers that the dispatcher, or a function of its module that it can reach, writes.  Regenerated:

  * containers: names bound at module level (or in the body of `unyt_array`) to a dict / list / set
    display or to a call of a container constructor;
  * reachable code: `__array_ufunc__`, `_coerce_iterable_units`, the functions named in the
    `_ufunc_registry` display, and (transitively) every function of the module they call by name
    and every method of `unyt_array` they call on `self`;
  * caching decorators of the module applied to reachable functions (`_unit_rule_cache`: a
    `functools.lru_cache` per rule function behind a wrapper): a memo row on block "rule" whose key
    fields are what the wrapper passes to the cached callable (`*args`→unit0, unit1; the tuple of
    `id(arg.registry)`→reg0, reg1; "rule" because the cache is created once per decorated function);
  * for every container written there (`X[k] = v`, `X[k] op= v`, `del X[k]`, `X.update/…(…)`,
    `global X` rebinding): a memo row `(name, block, key fields, maxsize)` when it has the shape of a
    memo (`X[key] = …` with a tuple key), else the name goes to the unmodelled list.
      - key fields: the elements of the key tuple mapped to what they denote in the binary branch
        (`u0`→unit0, `u1`→unit1, `id(u0.registry)`→reg0, `ufunc`→ufunc, `unit_operator`→rule,
        `method`→method, `inp0/i0`→operand0, `inp1/i1`→operand1, `out`→out, anything else→other);
      - block: "check" when the statement guarded by the lookup contains the dimension check
        (`same_dimensions_as`), else "unmodelled";
      - maxsize: the bound in `len(X) >= N` (module constant or literal), 0 when there is none.

Writes lean/UnytModel/Generated/C01State.lean (`dispatcherMemos`, `dispatcherStateUnmodelled`,
`dispatcherReachable`).  `Unyt.C01.dispatcher_memos_are_sound` decides over it.
"""
import ast
import os

CONSTRUCTORS = {"dict", "list", "set", "OrderedDict", "defaultdict", "WeakValueDictionary", "WeakKeyDictionary",
                "deque", "Counter", "ChainMap", "bytearray"}
MUTATORS = {"clear", "update", "setdefault", "pop", "popitem", "append", "add", "extend", "insert", "remove",
            "discard", "move_to_end", "appendleft", "popleft", "__setitem__", "__delitem__", "sort", "reverse"}
NAME_FIELDS = {"u0": "unit0", "u1": "unit1", "unit0": "unit0", "unit1": "unit1", "ufunc": "ufunc",
               "unit_operator": "rule", "method": "method", "inp0": "operand0", "i0": "operand0",
               "inp1": "operand1", "i1": "operand1", "out": "out", "out_arr": "out"}


def is_container_value(v):
    if isinstance(v, (ast.Dict, ast.List, ast.Set, ast.DictComp, ast.ListComp, ast.SetComp)):
        return True
    if isinstance(v, ast.Call):
        f = v.func
        name = f.id if isinstance(f, ast.Name) else (f.attr if isinstance(f, ast.Attribute) else "")
        return name in CONSTRUCTORS
    return False


def container_of(node, containers, class_containers):
    """name of the process-wide container an expression denotes, else None"""
    if isinstance(node, ast.Name) and node.id in containers:
        return node.id
    if isinstance(node, ast.Attribute) and node.attr in class_containers:
        b = ast.unparse(node.value)
        if b in ("self", "cls", "type(self)", "unyt_array", "self.__class__"):
            return node.attr
    return None


def field_of(e):
    if isinstance(e, ast.Name):
        return NAME_FIELDS.get(e.id, "other")
    s = ast.unparse(e)
    for v, r in (("u0", "reg0"), ("u1", "reg1")):
        if s in (f"id({v}.registry)", f"{v}.registry", f"id(getattr({v}, 'registry', None))"):
            return r
    if s in ("inputs[0]",):
        return "operand0"
    if s in ("inputs[1]",):
        return "operand1"
    return "other"


def generate(X):
    src = open(os.path.join(X.REPO, "unyt", "array.py"), encoding="utf-8").read()
    tree = ast.parse(src)
    consts = {}
    containers = set()
    for n in tree.body:
        if isinstance(n, (ast.Assign, ast.AnnAssign)) and n.value is not None:
            tgs = n.targets if isinstance(n, ast.Assign) else [n.target]
            for t in tgs:
                if isinstance(t, ast.Name):
                    if is_container_value(n.value):
                        containers.add(t.id)
                    elif isinstance(n.value, ast.Constant) and isinstance(n.value.value, int):
                        consts[t.id] = n.value.value
    module_fns = {n.name: n for n in tree.body if isinstance(n, ast.FunctionDef)}
    cls = next(n for n in tree.body if isinstance(n, ast.ClassDef) and n.name == "unyt_array")
    methods = {n.name: n for n in cls.body if isinstance(n, ast.FunctionDef)}
    class_containers = set()
    registry_names = set()
    for n in cls.body:
        if isinstance(n, ast.Assign) and is_container_value(n.value):
            for t in n.targets:
                if isinstance(t, ast.Name):
                    class_containers.add(t.id)
                    if t.id == "_ufunc_registry":
                        registry_names = {m.id for m in ast.walk(n.value) if isinstance(m, ast.Name)}
    # reachable code
    reach = {}
    todo = [("__array_ufunc__", methods["__array_ufunc__"]), ("_coerce_iterable_units", module_fns["_coerce_iterable_units"])]
    todo += [(n, module_fns[n]) for n in sorted(registry_names) if n in module_fns]
    while todo:
        name, fn = todo.pop()
        if name in reach:
            continue
        reach[name] = fn
        for n in ast.walk(fn):
            if isinstance(n, ast.Call):
                if isinstance(n.func, ast.Name) and n.func.id in module_fns:
                    todo.append((n.func.id, module_fns[n.func.id]))
                elif isinstance(n.func, ast.Attribute) and isinstance(n.func.value, ast.Name) \
                        and n.func.value.id == "self" and n.func.attr in methods:
                    todo.append((n.func.attr, methods[n.func.attr]))
        for d in fn.decorator_list:
            dn = d.func if isinstance(d, ast.Call) else d
            if isinstance(dn, ast.Name) and dn.id in module_fns:
                todo.append((dn.id, module_fns[dn.id]))
    # writes
    written = {}      # container -> list of (function, node)
    for fname, fn in reach.items():
        globs = {g for n in ast.walk(fn) if isinstance(n, ast.Global) for g in n.names}
        for n in ast.walk(fn):
            tgs = []
            if isinstance(n, ast.Assign):
                tgs = [e for t in n.targets for e in (t.elts if isinstance(t, (ast.Tuple, ast.List)) else [t])]
            elif isinstance(n, ast.AugAssign):
                tgs = [n.target]
            elif isinstance(n, ast.Delete):
                tgs = n.targets
            for t in tgs:
                if isinstance(t, ast.Subscript):
                    c = container_of(t.value, containers, class_containers)
                    if c:
                        written.setdefault(c, []).append((fname, n, t))
                elif isinstance(t, ast.Name) and t.id in globs and t.id in containers:
                    written.setdefault(t.id, []).append((fname, n, None))
            if isinstance(n, ast.Call) and isinstance(n.func, ast.Attribute) and n.func.attr in MUTATORS:
                c = container_of(n.func.value, containers, class_containers)
                if c:
                    written.setdefault(c, []).append((fname, n, None))
    memos, unmodelled = [], []
    for c in sorted(written):
        stores = [(f, n, t) for f, n, t in written[c] if t is not None and isinstance(n, ast.Assign)]
        if not stores:
            unmodelled.append(c)
            continue
        fname, node, target = stores[0]
        fn = reach[fname]
        key = target.slice
        if isinstance(key, ast.Name):
            cands = [a.value for a in ast.walk(fn) if isinstance(a, ast.Assign) and isinstance(a.value, ast.Tuple)
                     and any(isinstance(t, ast.Name) and t.id == key.id for t in a.targets)]
            key = cands[-1] if cands else key
        elts = key.elts if isinstance(key, ast.Tuple) else [key]
        fields = [field_of(e) for e in elts]
        # the statement guarded by the lookup
        lookups = set()
        for a in ast.walk(fn):
            if isinstance(a, ast.Assign) and any(container_of(m, containers, class_containers) == c for m in ast.walk(a.value)):
                for t in a.targets:
                    for e in (t.elts if isinstance(t, (ast.Tuple, ast.List)) else [t]):
                        if isinstance(e, ast.Name):
                            lookups.add(e.id)
        guard = None
        for i in ast.walk(fn):
            if isinstance(i, (ast.If, ast.Try)) and any(m is node for m in ast.walk(i)):
                test = i.test if isinstance(i, ast.If) else i
                names = {m.id for m in ast.walk(test) if isinstance(m, ast.Name)}
                if isinstance(i, ast.If) and (names & lookups or c in names):
                    guard = i
                    break
        text = ast.unparse(guard) if guard is not None else ""
        block = "check" if "same_dimensions_as" in text else "unmodelled"
        maxsize = 0
        for m in ast.walk(fn):
            if isinstance(m, ast.Compare) and ast.unparse(m.left) == f"len({c})" and m.comparators:
                r = m.comparators[0]
                if isinstance(r, ast.Constant) and isinstance(r.value, int):
                    maxsize = r.value
                elif isinstance(r, ast.Name) and r.id in consts:
                    maxsize = consts[r.id]
        memos.append((c, block, fields, maxsize))
    # memos made by a caching decorator of the module (`functools.lru_cache` inside a decorator applied to
    # reachable functions): the key is what the wrapper passes to the cached callable
    def last_name(f):
        return f.id if isinstance(f, ast.Name) else (f.attr if isinstance(f, ast.Attribute) else "")
    users = {}
    for fname, fn in reach.items():
        for d in fn.decorator_list:
            dn = d.func if isinstance(d, ast.Call) else d
            if isinstance(dn, ast.Name) and dn.id in module_fns:
                users.setdefault(dn.id, []).append(fname)
            elif last_name(dn) in ("lru_cache", "cache"):
                # cached directly: keyed by all its arguments, one cache per function
                mx = 128
                if isinstance(d, ast.Call):
                    for k in d.keywords:
                        if k.arg == "maxsize" and isinstance(k.value, ast.Constant):
                            mx = k.value.value if isinstance(k.value.value, int) else 10**9
                memos.append((fname, "rule" if fname in registry_names else "unmodelled", ["rule", "unit0", "unit1"], mx))
    for D in sorted(users):
        dfn = module_fns[D]
        lru = [c for c in ast.walk(dfn) if isinstance(c, ast.Call) and last_name(c.func) in ("lru_cache", "cache")]
        if not lru:
            continue
        cache_names = {t.id for a in ast.walk(dfn) if isinstance(a, ast.Assign)
                       and any(m is c for m in ast.walk(a.value) for c in lru) for t in a.targets if isinstance(t, ast.Name)}
        calls = [c for c in ast.walk(dfn) if isinstance(c, ast.Call) and isinstance(c.func, ast.Name) and c.func.id in cache_names]
        block = "rule" if set(users[D]) & registry_names else "unmodelled"
        if not calls:
            memos.append((D, "unmodelled", [], 0))
            continue
        fields = ["rule"]          # the cache is created inside the decorator: one per decorated function
        for a in calls[0].args:
            if isinstance(a, ast.Starred):
                fields += ["unit0", "unit1"]
            elif isinstance(a, ast.Subscript) and ast.unparse(a) in ("args[0]", "args[1]"):
                fields.append("unit0" if ast.unparse(a) == "args[0]" else "unit1")
            elif isinstance(a, ast.Name):
                vals = [ast.unparse(x.value) for x in ast.walk(dfn) if isinstance(x, ast.Assign)
                        and any(isinstance(t, ast.Name) and t.id == a.id for t in x.targets)]
                if vals and "registry" in vals[-1] and "for arg in args" in vals[-1]:
                    fields += ["reg0", "reg1"]
                else:
                    fields.append("other")
            else:
                fields.append("other")
        for k in calls[0].keywords:
            fields.append("other")
        mx = 128
        for k in lru[0].keywords:
            if k.arg == "maxsize" and isinstance(k.value, ast.Constant):
                mx = k.value.value if isinstance(k.value.value, int) else 10**9
        memos.append((D, block, fields, mx))
    L = X.lstr
    rows = ",\n".join(f"  ({L(n)}, {L(b)}, [{', '.join(L(f) for f in fs)}], {mx})" for n, b, fs, mx in memos)
    text = (
        X.header()
        + "namespace Unyt.Generated\n\n"
        + "/-- process-wide containers written by `__array_ufunc__` or by code of its module that it reaches,\n"
        + "    with the shape of a memo: (name, block short-circuited, what the key mentions, size bound) -/\n"
        + "def dispatcherMemos : List (String × String × List String × Nat) := [\n" + rows + "\n]\n\n"
        + "/-- process-wide containers written there that do not have the shape of a memo -/\n"
        + "def dispatcherStateUnmodelled : List String := [" + ", ".join(L(u) for u in unmodelled) + "]\n\n"
        + "/-- the code searched: the dispatcher, the coercion, the unit rules, and what they call in the module -/\n"
        + "def dispatcherReachable : List String := [" + ", ".join(L(r) for r in sorted(reach)) + "]\n\n"
        + "end Unyt.Generated\n"
    )
    X.write_if_changed(os.path.join(X.GEN, "C01State.lean"), text)
    return {"memos": [list(m) for m in memos], "unmodelled": unmodelled, "reachable": sorted(reach),
            "containers": sorted(containers), "class_containers": sorted(class_containers)}
