"""C16 translator plugin: regenerates lean/UnytModel/Generated/C16Tables.lean from the live library.

Two tables:

* `c16Accessors` — for every unit-stripping accessor, converting call, constructor route and
  view-making method named by property C16: does the result share memory with its parent?
  Obtained by PROBING the live library (`np.shares_memory` on canonical 1-d/2-d/3-d arrays and a
  0-d quantity), so it follows whatever the code under $UNYT_REPO does now.
* `c16HandlerRules` — for every NumPy function in `_HANDLED_FUNCTIONS`, how each `return`
  statement of its handler builds the value it returns (`res * units`, `unyt_array(res, …)`,
  class chosen by `res.ndim == 0`, a bare NumPy result, a re-dispatch, …), obtained from the SOURCE of `_array_functions.py` via `ast`.

The JSON returned (build/extract_c16_tables.json) carries the same data for the harness.
"""
import ast
import inspect
import os
import warnings


# --------------------------------------------------------------------------------------------
# accessor probe

def accessor_catalogue(np, unyt):
    """[(name, parent_kind, fn)]: parent_kind 'x' = fn(x) for a unyt_array/unyt_quantity x,
    'a' = fn(a) for a bare ndarray a.  Shared with harness/c16.py (which re-probes on all shapes)."""
    ua, uq, Unit = unyt.unyt_array, unyt.unyt_quantity, unyt.Unit
    m = Unit("m")
    return [
        # unit-stripping accessors
        ("d", "x", lambda x: x.d),
        ("ndview", "x", lambda x: x.ndview),
        ("ndarray_view()", "x", lambda x: x.ndarray_view()),
        ("v", "x", lambda x: x.v),
        ("value", "x", lambda x: x.value),
        ("to_ndarray()", "x", lambda x: x.to_ndarray()),
        ("to_value()", "x", lambda x: x.to_value()),
        ("to_value(same)", "x", lambda x: x.to_value("m")),
        ("to_value(other)", "x", lambda x: x.to_value("cm")),
        ("np.asarray(x)", "x", lambda x: np.asarray(x)),
        ("np.array(x)", "x", lambda x: np.array(x)),
        # copies and converting calls
        ("copy()", "x", lambda x: x.copy()),
        ("to(same)", "x", lambda x: x.to("m")),
        ("to(other)", "x", lambda x: x.to("cm")),
        ("in_units(same)", "x", lambda x: x.in_units("m")),
        ("in_units(other)", "x", lambda x: x.in_units("cm")),
        ("in_base()", "x", lambda x: x.in_base()),
        ("in_cgs()", "x", lambda x: x.in_cgs()),
        ("in_mks()", "x", lambda x: x.in_mks()),
        ("to_equivalent(spectral)", "x", lambda x: x.to_equivalent("Hz", "spectral")),
        ("unit_array", "x", lambda x: x.unit_array),
        # views of the data that keep the units
        ("x[1:]", "x", lambda x: x[1:] if x.ndim else x[...]),
        ("x[::2]", "x", lambda x: x[::2] if x.ndim else x[...]),
        ("x[...]", "x", lambda x: x[...]),
        ("x[None]", "x", lambda x: x[None]),
        ("x[...,0:1]", "x", lambda x: x[..., 0:1] if x.ndim else x[...]),
        ("reshape(-1)", "x", lambda x: x.reshape(-1)),
        ("reshape(shape+(1,))", "x", lambda x: x.reshape(x.shape + (1,))),
        ("np.reshape(x,-1)", "x", lambda x: np.reshape(x, -1)),
        ("T", "x", lambda x: x.T),
        ("transpose()", "x", lambda x: x.transpose()),
        ("np.transpose(x)", "x", lambda x: np.transpose(x)),
        ("swapaxes(0,-1)", "x", lambda x: x.swapaxes(0, -1) if x.ndim else x.transpose()),
        ("ravel()", "x", lambda x: x.ravel()),
        ("squeeze()", "x", lambda x: x.squeeze()),
        ("view()", "x", lambda x: x.view()),
        ("unyt_array(x)", "x", lambda x: ua(x)),
        # copies that keep the units
        ("flatten()", "x", lambda x: x.flatten()),
        ("x[[0]]", "x", lambda x: x[[0]] if x.ndim else x.copy()),
        ("x[mask]", "x", lambda x: x[np.ones(x.shape, dtype=bool)]),
        ("x*unit", "x", lambda x: x * m),
        ("unit*x", "x", lambda x: m * x),
        # constructors from bare NumPy data
        ("unyt_array(ndarray,unit)", "a", lambda a: ua(a, "m")),
        ("unyt_array(ndarray)", "a", lambda a: ua(a)),
        ("unyt_array(ndarray,unit,name)", "a", lambda a: ua(a, m, name="n")),
        ("unyt_array(ndarray,bypass)", "a", lambda a: ua(a, m, bypass_validation=True)),
        ("ndarray*unit", "a", lambda a: a * m),
        ("unit*ndarray", "a", lambda a: m * a),
        ("ndarray/unit", "a", lambda a: a / m),
        ("unyt_array(list)", "a", lambda a: ua(a.tolist(), "m")),
    ]


def probe_inputs(np, unyt):
    base = np.arange(12.0) + 1.0
    shapes = [(6,), (2, 3), (2, 3, 2), ()]
    xs, as_ = [], []
    for sh in shapes:
        n = int(np.prod(sh)) if sh else 1
        a = base[:n].copy().reshape(sh)
        as_.append(a)
        if sh == ():
            xs.append(unyt.unyt_quantity(float(a), "m", name="p"))
        else:
            xs.append(unyt.unyt_array(a.copy(), "m", name="p"))
    return xs, as_


def probe_accessors(np, unyt):
    xs, as_ = probe_inputs(np, unyt)
    rows = []
    for name, kind, fn in accessor_catalogue(np, unyt):
        shared = []
        rkind = None
        for parent in (xs if kind == "x" else as_):
            with warnings.catch_warnings():
                warnings.simplefilter("ignore")
                r = fn(parent)
            if isinstance(r, np.ndarray):
                shared.append(bool(np.shares_memory(r, parent)))
            else:
                shared.append(False)
            if rkind is None:
                rkind = "unyt" if isinstance(r, unyt.unyt_array) else ("ndarray" if isinstance(r, np.ndarray) else "scalar")
        rel = "view" if all(shared) else ("copy" if not any(shared) else "mixed")
        rows.append((name, rel, rkind))
    return rows


# --------------------------------------------------------------------------------------------
# handler return rules (ast)

def _contains_units(node, unit_names):
    for n in ast.walk(node):
        if isinstance(n, ast.Attribute) and n.attr == "units":
            return True
        if isinstance(n, ast.Name) and (n.id in unit_names or n.id == "NULL_UNIT"):
            return True
        if isinstance(n, ast.Call) and isinstance(n.func, ast.Name) and n.func.id in (
            "_validate_units_consistency", "get_units"):
            return True
        if (isinstance(n, ast.Call) and isinstance(n.func, ast.Name) and n.func.id == "getattr"
                and len(n.args) >= 2 and isinstance(n.args[1], ast.Constant) and n.args[1].value == "units"):
            return True
    return False


class FnInfo:
    def __init__(self, node):
        self.node = node
        self.assign = {}  # name -> [value nodes]
        for n in ast.walk(node):
            targets = []
            if isinstance(n, ast.Assign):
                targets = n.targets
                val = n.value
            elif isinstance(n, (ast.AnnAssign, ast.AugAssign)) and getattr(n, "value", None) is not None:
                targets = [n.target]
                val = n.value
            elif isinstance(n, ast.NamedExpr):
                targets = [n.target]
                val = n.value
            for t in targets:
                for nm in ([t] if isinstance(t, ast.Name) else [e for e in ast.walk(t) if isinstance(e, ast.Name)]):
                    self.assign.setdefault(nm.id, []).append(val)
        # names that hold a Unit
        self.unit_names = set()
        changed = True
        while changed:
            changed = False
            for k, vals in self.assign.items():
                if k in self.unit_names:
                    continue
                for v in vals:
                    if not isinstance(v, (ast.Call, ast.BinOp, ast.Attribute, ast.Name, ast.IfExp)):
                        continue
                    # a value is a unit if it is built from .units / unit names only (no array data)
                    if _is_unit_expr(v, self.unit_names):
                        self.unit_names.add(k)
                        changed = True
                        break
        self.ndim_test = any(
            isinstance(n, ast.Compare)
            and ((isinstance(n.left, ast.Attribute) and n.left.attr == "ndim"
                  and isinstance(n.comparators[0], ast.Constant) and n.comparators[0].value == 0)
                 or (isinstance(n.left, ast.Attribute) and n.left.attr == "shape"
                     and isinstance(n.comparators[0], ast.Tuple) and not n.comparators[0].elts))
            and isinstance(n.ops[0], ast.Eq)
            for n in ast.walk(node))


def _is_unit_expr(v, unit_names):
    """expression made of `.units`, unit-holding names, NULL_UNIT, getattr(x,'units',…),
    `_validate_units_consistency(…)`, and * / ** between those"""
    if isinstance(v, ast.Attribute):
        return v.attr == "units"
    if isinstance(v, ast.Name):
        return v.id in unit_names or v.id == "NULL_UNIT"
    if (isinstance(v, ast.Call) and isinstance(v.func, ast.Attribute) and v.func.attr == "prod"
            and len(v.args) == 1):
        return _is_unit_expr(v.args[0], unit_names)  # np.prod(get_units(...))
    if isinstance(v, ast.Call) and isinstance(v.func, ast.Name):
        if v.func.id in ("_validate_units_consistency", "get_units"):
            return True
        if v.func.id == "getattr" and len(v.args) >= 2 and isinstance(v.args[1], ast.Constant) and v.args[1].value == "units":
            return True
        return False
    if isinstance(v, ast.BinOp):
        if isinstance(v.op, ast.Pow):
            return _is_unit_expr(v.left, unit_names)
        if isinstance(v.op, (ast.Mult, ast.Div)):
            return _is_unit_expr(v.left, unit_names) and _is_unit_expr(v.right, unit_names)
    if isinstance(v, ast.IfExp):
        return _is_unit_expr(v.body, unit_names) and _is_unit_expr(v.orelse, unit_names)
    return False


_UNYT_NAMES = ("unyt_array", "unyt_quantity")


def _mentions_unyt(expr, fi, seen=()):
    """could this expression build (or re-class) a unyt object by itself?  True when it mentions a
    unyt class, `.view(`, `type(x)(…)`, or a local name assigned from such an expression"""
    for n in ast.walk(expr):
        if isinstance(n, ast.Name) and n.id in _UNYT_NAMES:
            return True
        if isinstance(n, ast.Attribute) and n.attr in _UNYT_NAMES + ("view", "__class__"):
            return True
        if isinstance(n, ast.Call) and isinstance(n.func, ast.Call) and isinstance(n.func.func, ast.Name) and n.func.func.id == "type":
            return True
        if isinstance(n, ast.Name) and n.id in fi.assign and n.id not in seen:
            if any(_mentions_unyt(v, fi, seen + (n.id,)) for v in fi.assign[n.id]):
                return True
    return False


def _leaf(expr, fi):
    """classification of an expression none of the unyt-building patterns matched:
       unknown    — it mentions a unyt class / .view( / type(x)( : builds a unyt object in a way
                    the translator does not understand
       redispatch — a public NumPy call or a call of a caller-supplied function: the class is
                    decided by that callee's own handler / the default path
       npImpl     — built only from `np.X._implementation(…)` results, parameters and plain
                    Python: whatever NumPy's implementation returns, no unyt object is built here
       noValue    — None, a constant, a string, a comparison"""
    if expr is None or isinstance(expr, (ast.Constant, ast.JoinedStr, ast.Compare, ast.BoolOp)):
        return {"noValue"}
    if _mentions_unyt(expr, fi):
        return {"unknown"}
    params = {a.arg for a in fi.node.args.args + fi.node.args.kwonlyargs + fi.node.args.posonlyargs}
    for n in ast.walk(expr):
        if isinstance(n, ast.Call):
            f = n.func
            if isinstance(f, ast.Name) and f.id in params:
                return {"redispatch"}
            if isinstance(f, ast.Attribute) and f.attr != "_implementation":
                # np.X(...) / np.linalg.X(...) entry points that go through __array_function__
                # (np.asarray, np.empty, … do not dispatch and only convert)
                chain = []
                root = f
                while isinstance(root, ast.Attribute):
                    chain.append(root.attr)
                    root = root.value
                if isinstance(root, ast.Name) and root.id == "np":
                    import numpy as _np

                    obj = _np
                    for a_ in reversed(chain):
                        obj = getattr(obj, a_, None)
                    if hasattr(obj, "_implementation"):
                        return {"redispatch"}
    return {"npImpl"}


def classify(expr, fi, funcs, depth=0, seen=()):
    """set of rule names for one returned expression"""
    if expr is None:
        return {"noValue"}
    if isinstance(expr, ast.Tuple):
        out = set()
        for e in expr.elts:
            out |= classify(e, fi, funcs, depth, seen)
        return out
    if isinstance(expr, ast.Starred):
        return classify(expr.value, fi, funcs, depth, seen)
    if isinstance(expr, ast.GeneratorExp) or isinstance(expr, ast.ListComp):
        return classify(expr.elt, fi, funcs, depth, seen)
    if isinstance(expr, ast.IfExp):
        return classify(expr.body, fi, funcs, depth, seen) | classify(expr.orelse, fi, funcs, depth, seen)
    if isinstance(expr, ast.BinOp) and isinstance(expr.op, (ast.Mult, ast.Div)):
        if _is_unit_expr(expr.right, fi.unit_names) or _is_unit_expr(expr.left, fi.unit_names):
            return {"timesUnit"}
        # (x * bu) / au and the like: a unyt operand combined with a unit — the ufunc wrap-up or
        # Unit.__rmul__ decides by shape
        sub = classify(expr.left, fi, funcs, depth, seen) | classify(expr.right, fi, funcs, depth, seen)
        if "timesUnit" in sub:
            return {"timesUnit"}
        return _leaf(expr, fi)
    if isinstance(expr, ast.Call):
        f = expr.func
        if isinstance(f, ast.Name):
            if f.id == "unyt_array":
                return {"alwaysArray"}
            if f.id == "unyt_quantity":
                return {"alwaysQuantity"}
            if f.id == "tuple" and expr.args:
                return classify(expr.args[0], fi, funcs, depth, seen)
            if f.id in fi.assign:
                vals = fi.assign[f.id]
                names = set()
                for v in vals:
                    for n in ast.walk(v):
                        if isinstance(n, ast.Name) and n.id in ("unyt_array", "unyt_quantity"):
                            names.add(n.id)
                if names == {"unyt_array", "unyt_quantity"}:
                    return {"byNdim"} if fi.ndim_test else {"unknown"}
                if names == {"unyt_array"}:
                    return {"alwaysArray"}
                if names == {"unyt_quantity"}:
                    return {"alwaysQuantity"}
                return _leaf(expr, fi)
            if f.id in funcs and f.id not in seen and depth < 3:
                return rules_of_function(funcs[f.id], funcs, depth + 1, seen + (f.id,))
        return _leaf(expr, fi)
    if isinstance(expr, ast.Name):
        vals = fi.assign.get(expr.id)
        if vals and expr.id not in seen and depth < 3:
            out = set()
            for v in vals:
                out |= classify(v, fi, funcs, depth + 1, seen + (expr.id,))
            return out
        return _leaf(expr, fi)
    return _leaf(expr, fi)


def rules_of_function(node, funcs, depth=0, seen=()):
    fi = FnInfo(node)
    out = set()
    for n in ast.walk(node):
        if isinstance(n, ast.Return):
            out |= classify(n.value, fi, funcs, depth, seen)
    return out or {"noValue"}


def public_name(func):
    mod = getattr(func, "__module__", "") or ""
    name = getattr(func, "__name__", repr(func))
    mod = mod[len("numpy"):].lstrip(".") if mod.startswith("numpy") else mod
    if mod in ("linalg", "fft"):
        return f"{mod}.{name}"
    return name


def handler_rules(unyt):
    import unyt._array_functions as af

    src = inspect.getsource(af)
    tree = ast.parse(src)
    # every FunctionDef in the module (also those nested under `if NUMPY_VERSION …:`), by first line
    by_line = {}
    funcs = {}
    for n in ast.walk(tree):
        if isinstance(n, ast.FunctionDef):
            first = min([d.lineno for d in n.decorator_list] + [n.lineno])
            by_line[first] = n
            by_line[n.lineno] = n
            funcs.setdefault(n.name, n)
    out = {}
    for npfunc, handler in af._HANDLED_FUNCTIONS.items():
        node = by_line.get(handler.__code__.co_firstlineno)
        if node is None or node.name != handler.__name__:
            raise RuntimeError(f"cannot locate the source of handler {handler.__name__}")
        # the live definition wins over an identically named one in another version branch
        funcs_live = dict(funcs)
        funcs_live[node.name] = node
        out[public_name(npfunc)] = sorted(rules_of_function(node, funcs_live))
    return dict(sorted(out.items()))


# --------------------------------------------------------------------------------------------

def generate(X):
    import numpy as np
    import unyt

    acc = probe_accessors(np, unyt)
    rules = handler_rules(unyt)
    rel = {"view": "MemRel.view", "copy": "MemRel.copy", "mixed": "MemRel.mixed"}
    text = (
        X.header("UnytModel.ResultClass")
        + "namespace Unyt.Generated\n\n"
        + "/-- probe of the live library: (accessor, shares memory with its parent?, result kind) -/\n"
        + "def c16Accessors : List (String × MemRel × String) := [\n"
        + ",\n".join(f"  ({X.lstr(n)}, {rel[r]}, {X.lstr(k)})" for n, r, k in acc)
        + "\n]\n\n"
        + "/-- `_array_functions.py` via ast: (NumPy function, how its handler's return statements build the result) -/\n"
        + "def c16HandlerRules : List (String × List HRule) := [\n"
        + ",\n".join(f"  ({X.lstr(n)}, [" + ", ".join("HRule." + r for r in rs) + "])" for n, rs in rules.items())
        + "\n]\n\nend Unyt.Generated\n"
    )
    X.write_if_changed(os.path.join(X.GEN, "C16Tables.lean"), text)
    return {"accessors": [list(r) for r in acc], "handler_rules": rules}
