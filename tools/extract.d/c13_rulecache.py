"""C13 translator plugin: are the memoised unit rules of `unyt_array` arithmetic keyed by the registry?

For every distinct function of `unyt_array._ufunc_registry` that carries a cache (`cache_info`), two registries
with IDENTICAL contents are made, the function is called with equal-looking units of the first and then of the
second: the second call must be a cache MISS (`cache_info().misses` grows) and must answer with a unit of the
second registry.  Regenerates `Generated/RuleCacheCfg.lean` (`ruleCachesKeyed`, `ruleAnswersForeign`)."""
import os


def generate(X):
    import unyt
    from unyt import Unit
    from unyt.array import unyt_array
    from unyt.unit_registry import UnitRegistry

    fns = {}
    for f in unyt_array._ufunc_registry.values():
        if callable(getattr(f, "cache_info", None)) and callable(getattr(f, "cache_clear", None)):
            fns[f.__name__] = f
    rows = []
    foreign = False
    import inspect

    for name in sorted(fns):
        f = fns[name]
        try:
            nparams = len([p for p in inspect.signature(f).parameters.values() if p.default is inspect._empty])
        except (TypeError, ValueError):
            nparams = 2
        r1, r2 = UnitRegistry(), UnitRegistry()
        f.cache_clear()

        def args(r):
            a = [Unit("km", registry=r), Unit("hr", registry=r)][:max(nparams, 1)]
            if name in ("_power_unit",):
                a = [Unit("km", registry=r), 2.0]
            return a

        try:
            f(*args(r1))
            m1 = f.cache_info().misses
            res = f(*args(r2))
            m2 = f.cache_info().misses
        except Exception:  # a rule that refuses these operands tells nothing
            continue
        keyed = m2 > m1
        unit = res[1] if isinstance(res, tuple) and len(res) > 1 else None
        if unit is not None and hasattr(unit, "registry") and unit.registry is not r2:
            foreign = True
        rows.append((name, keyed))
        f.cache_clear()
    b = lambda x: "true" if x else "false"  # noqa: E731
    text = (
        X.header()
        + "namespace Unyt.Generated\n\n"
        + "/-- per memoised unit rule of the live `_ufunc_registry`: the call with equal-looking units of a SECOND\n"
        + "    registry of identical contents was a cache miss (tools/extract.d/c13_rulecache.py) -/\n"
        + "def ruleCachesKeyed : List (String × Bool) := ["
        + ", ".join(f"({X.lstr(n)}, {b(k)})" for n, k in rows) + "]\n\n"
        + "/-- some rule answered the second registry's operands with a unit of the first -/\n"
        + f"def ruleAnswersForeign : Bool := {b(foreign)}\n\n"
        + "end Unyt.Generated\n"
    )
    X.write_if_changed(os.path.join(X.GEN, "RuleCacheCfg.lean"), text)
    return {"rules": rows, "foreign": foreign}
