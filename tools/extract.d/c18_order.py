"""C18 translator plugin: regenerates lean/UnytModel/Generated/C18Order.lean from the *source*
of /repo/unyt/array.py, unit_object.py, equivalencies.py (via `ast`, nothing is executed).

Two kinds of facts, both functions of the source text only:

  * `<routine>Order`  — for every in-place routine the ORDER (source order = execution order of
                        a straight-line path) of the events the C18 model is about:
                          W:<what>   a write to the target (`self` / `out=`): attribute assignment,
                                     augmented assignment / item assignment on the array or on a
                                     view alias of its buffer, `np.copyto(target, …)`, a ufunc call
                                     with `out=`target, `super().__setitem__`
                          F:<what>   a step that can raise (`raise X`, calls of the fallible
                                     helpers: unit parsing, conversion factor, EM check, registry
                                     look-ups, `astype`, the ufunc kernel, …)
                          C:<what>   a call of another in-place routine on the same target
                        A reordering in /repo (e.g. assigning `self.units` after the dtype dance)
                        changes this list and breaks the kernel-decided obligation that ties it to
                        the hand-written step model (`UnytModel/Effects.lean`).
  * `methodFacts`     — for every method of `unyt_array`, `unyt_quantity` and `Unit`: the direct
                        writes to `self` found in its body and the `self.<method>(…)` calls it
                        makes; the Lean side closes this transitively and checks it against the
                        hand-written list of documented-copying / documented-in-place methods.
"""
import ast
import os

# ------------------------------------------------------------------------------------------
# generic helpers


def _load(repo, rel):
    path = os.path.join(repo, "unyt", rel)
    return ast.parse(open(path, encoding="utf-8").read())


def _cls(tree, name):
    for node in tree.body:
        if isinstance(node, ast.ClassDef) and node.name == name:
            return node
    raise LookupError(f"class {name} not found")


def _method(tree, cls, name):
    for f in _cls(tree, cls).body:
        if isinstance(f, ast.FunctionDef) and f.name == name:
            return f
    raise LookupError(f"{cls}.{name} not found")


def _dotted(node):
    """dotted name of a callee / attribute chain (`np.copyto`, `self.units.get_conversion_factor`,
    `super().__setitem__`), or None"""
    if isinstance(node, ast.Name):
        return node.id
    if isinstance(node, ast.Attribute):
        b = _dotted(node.value)
        return None if b is None else b + "." + node.attr
    if isinstance(node, ast.Call):
        b = _dotted(node.func)
        return None if b is None else b + "()"
    if isinstance(node, ast.Subscript):
        b = _dotted(node.value)
        return None if b is None else b + "[]"
    return None


_VIEW_ATTRS = ("d", "ndview")


def _is_view_of(node, roots):
    """`X.d`, `X.ndview`, `X.view(np.ndarray)` for X a root/alias name"""
    if isinstance(node, ast.Attribute) and node.attr in _VIEW_ATTRS and isinstance(node.value, ast.Name):
        return node.value.id in roots
    if (isinstance(node, ast.Call) and isinstance(node.func, ast.Attribute) and node.func.attr == "view"
            and isinstance(node.func.value, ast.Name) and node.func.value.id in roots):
        return True
    return False


# module-level callables that receive `self` / the target and only READ it (hand-reviewed)
READERS = {"zip", "enumerate", "sorted", "reversed", "map", "any", "all", "max", "min", "sum", "abs", "type", "isinstance", "issubclass", "str", "repr", "getattr", "hasattr", "float", "int", "complex", "bool", "len", "id",
           "iter", "list", "tuple", "take", "unyt_array", "unyt_quantity", "Unit", "_sanitize_unit_system", "_em_conversion",
           "_get_conversion_factor", "_check_em_conversion", "_iterable", "_coerce_iterable_units", "print", "super",
           "_wrap_ufunc_output", "_apply_power_mapping", "_get_binary_op_return_class", "_sanitize_units_convert"}

VIEW_HELPERS = {"_float_out_view"}     # module-level helpers that return a view of their argument's buffer


def _aliases(fn, root):
    """names bound (anywhere in the function) to a view of the root's buffer; closed transitively"""
    al = {root}
    changed = True
    while changed:
        changed = False
        for node in ast.walk(fn):
            if isinstance(node, ast.Assign) and len(node.targets) == 1 and isinstance(node.targets[0], ast.Name):
                t = node.targets[0].id
                v = node.value
                via_helper = (isinstance(v, ast.Call) and isinstance(v.func, ast.Name) and v.func.id in VIEW_HELPERS
                              and v.args and _name_in(v.args[0], al))
                if t not in al and (_is_view_of(v, al) or via_helper):
                    al.add(t)
                    changed = True
    return al


def _name_in(node, names):
    return isinstance(node, ast.Name) and node.id in names


def _refers(node, names):
    """the expression is the target, a view of its buffer, or a conditional that may be either"""
    if _name_in(node, names) or _is_view_of(node, names):
        return True
    if isinstance(node, ast.IfExp):
        return _refers(node.body, names) or _refers(node.orelse, names)
    return False


def _refname(node, names):
    if isinstance(node, ast.Name):
        return node.id
    try:
        return ast.unparse(node)
    except Exception:  # noqa: BLE001
        return "?"


_AUG = {ast.Mult: "*=", ast.Add: "+=", ast.Sub: "-=", ast.Div: "/=", ast.FloorDiv: "//=", ast.Pow: "**=",
        ast.Mod: "%=", ast.BitAnd: "&=", ast.BitOr: "|=", ast.BitXor: "^=", ast.LShift: "<<=", ast.RShift: ">>=",
        ast.MatMult: "@="}

# methods of ndarray that modify the array they are called on
_MUTATING_NDARRAY_METHODS = {"fill", "sort", "partition", "put", "itemset", "resize", "setfield", "setflags", "byteswap"}


def _rooted(node, al):
    """`X`, `X.a`, `X.a.b`, `X.a[...]` … for X a target name: the dotted text, else None"""
    if _name_in(node, al):
        return node.id
    if isinstance(node, ast.Attribute):
        b = _rooted(node.value, al)
        return None if b is None else f"{b}.{node.attr}"
    if isinstance(node, ast.Subscript):
        b = _rooted(node.value, al)
        return None if b is None else f"{b}[]"
    return None


def _write_target(t, al, root):
    """describe an assignment target that writes to the root object, to an object it holds
    (`self.units.expr = …`, `self.__dict__[…] = …`) or to its buffer"""
    if isinstance(t, ast.Attribute):
        b = _rooted(t.value, al)
        if b is not None:
            return f"{b}.{t.attr}"
    if isinstance(t, ast.Subscript):
        b = _rooted(t.value, al)
        if b is not None:
            return f"{b}[]"
    if isinstance(t, (ast.Tuple, ast.List)):
        for e in t.elts:
            w = _write_target(e, al, root)
            if w:
                return w
    return None


def _module_func(tree, name):
    for node in tree.body:
        if isinstance(node, ast.FunctionDef) and node.name == name:
            return node
    return None


def events(fn, root, fallible, inplace_calls, extra_fallible_subscripts=(), helpers=None):
    """ordered W:/F:/C: events of one function (source order).  `helpers`: {name: (FunctionDef, its
    parameter playing the role of the target)} — a call `name(<target>)` is replaced by the events of
    the helper's body (module-level helpers that perform writes on the target, e.g. `_float_out_view`)"""
    al = _aliases(fn, root)
    out = []

    def who(name):
        return name

    for node in ast.walk(fn):
        if node is fn or not hasattr(node, "lineno"):
            continue
        pos = (node.lineno, node.col_offset)
        if isinstance(node, ast.Raise):
            exc = node.exc
            nm = _dotted(exc.func) if isinstance(exc, ast.Call) else (_dotted(exc) if exc is not None else "reraise")
            out.append((pos, 0, f"F:raise:{nm}"))
        elif isinstance(node, (ast.Assign, ast.AnnAssign)):
            targets = node.targets if isinstance(node, ast.Assign) else [node.target]
            for t in targets:
                w = _write_target(t, al, root)
                if w:
                    # the assignment happens after its right-hand side is evaluated
                    end = (node.end_lineno, node.end_col_offset)
                    out.append((end, 3, f"W:{w}"))
        elif isinstance(node, ast.AugAssign):
            t = node.target
            end = (node.end_lineno, node.end_col_offset)
            if _name_in(t, al):
                out.append((end, 3, f"W:{who(t.id)}{_AUG.get(type(node.op), '?=')}"))
            else:
                w = _write_target(t, al, root)
                if w:
                    out.append((end, 3, f"W:{w}{_AUG.get(type(node.op), '?=')}"))
        elif isinstance(node, ast.Call):
            callee = _dotted(node.func) or ""
            short = callee.split(".")[-1]
            end = (node.end_lineno, node.end_col_offset)
            # module-level helpers applied to the target: inlined --------------------------
            if helpers and callee in helpers and node.args and _refers(node.args[0], al):
                hfn, hroot = helpers[callee]
                for k, ev in enumerate(events(hfn, hroot, fallible, inplace_calls)):
                    ev = ev.replace(f"{hroot}.", f"{root}.").replace(f"({hroot})", f"({root})")
                    out.append((end, 1, ev))
                continue
            # writes through calls ------------------------------------------------------
            tgt = None
            for kw in node.keywords:
                if kw.arg == "out" and _refers(kw.value, al):
                    tgt = _refname(kw.value, al)
            if callee in ("np.copyto",) and node.args and _refers(node.args[0], al):
                out.append((end, 1, f"W:copyto({who(_refname(node.args[0], al))})"))
                continue
            if callee.startswith("np.") and len(node.args) >= 3 and _refers(node.args[2], al) and tgt is None:
                tgt = _refname(node.args[2], al)  # positional out of a binary ufunc
            if tgt is not None:
                out.append((end, 1, f"W:{callee}(out={who(tgt)})"))
                continue
            if callee == "super().__setitem__":
                out.append((end, 1, "W:super().__setitem__"))
                continue
            if (isinstance(node.func, ast.Attribute) and _name_in(node.func.value, al)
                    and short in _MUTATING_NDARRAY_METHODS):
                out.append((end, 1, f"W:{who(node.func.value.id)}.{short}()"))
                continue
            # attribute writes spelled as calls ---------------------------------------------
            if callee in ("setattr", "object.__setattr__", "delattr") and node.args and _refers(node.args[0], al):
                out.append((end, 1, f"W:{callee}({who(_refname(node.args[0], al))})"))
                continue
            if (isinstance(node.func, ast.Attribute) and node.func.attr in ("update", "setdefault", "pop", "clear")
                    and isinstance(node.func.value, ast.Attribute) and node.func.value.attr == "__dict__"
                    and _rooted(node.func.value.value, al) is not None):
                out.append((end, 1, f"W:{_rooted(node.func.value.value, al)}.__dict__.{node.func.attr}()"))
                continue
            # a module-level function that receives the target and is not on the reviewed list of readers:
            # it may write to it — reported as a write until someone has looked at it
            if (isinstance(node.func, ast.Name) and callee not in READERS and callee not in fallible
                    and callee not in inplace_calls and not (helpers and callee in helpers)
                    and any(_name_in(a, al) for a in list(node.args) + [k.value for k in node.keywords])):
                out.append((end, 1, f"W:?call:{callee}({who(root)})"))
                continue
            # in-place routines called on the same target --------------------------------
            if callee in inplace_calls or (short in inplace_calls and any(_name_in(a, {root}) for a in node.args)):
                out.append((end, 1, f"C:{callee}"))
                continue
            # fallible helpers -------------------------------------------------------------
            if callee in fallible or short in fallible:
                out.append((end, 1, f"F:{short}"))
        elif isinstance(node, ast.Subscript) and isinstance(node.ctx, ast.Load):
            nm = _dotted(node.value)
            if nm in extra_fallible_subscripts:
                out.append(((node.end_lineno, node.end_col_offset), 1, f"F:{nm.split('.')[-1]}[]"))
    # `equivalence_registry[equivalence](in_place=True)`: say which mode the equivalence is built in
    for node in ast.walk(fn):
        if isinstance(node, ast.Call) and isinstance(node.func, ast.Subscript) and _dotted(node.func.value) == "equivalence_registry":
            mode = "inplace" if any(k.arg == "in_place" and isinstance(k.value, ast.Constant) and k.value.value is True
                                    for k in node.keywords) else "copy"
            out.append(((node.end_lineno, node.end_col_offset), 2, f"F:Equivalence({mode})"))
    out.sort(key=lambda e: (e[0], e[1]))
    return [e[2] for e in out]


def raise_guards(fn):
    """[(exception, guard)] for every `raise` of a function, in source order; `guard` = the tests of the
    enclosing `if`s from the outermost inwards (`not (…)` for an else branch), joined by ` && `"""
    out = []

    def walk(stmts, conds):
        for st in stmts:
            if isinstance(st, ast.Raise):
                exc = st.exc
                nm = _dotted(exc.func) if isinstance(exc, ast.Call) else (_dotted(exc) if exc is not None else "reraise")
                out.append((st.lineno, nm, " && ".join(conds) if conds else "always"))
            elif isinstance(st, ast.If):
                t = ast.unparse(st.test)
                walk(st.body, conds + [t])
                walk(st.orelse, conds + [f"not ({t})"])
            elif isinstance(st, (ast.For, ast.While, ast.With)):
                walk(st.body, conds)
                walk(getattr(st, "orelse", []), conds)
            elif isinstance(st, ast.Try):
                walk(st.body, conds)
                for h in st.handlers:
                    walk(h.body, conds + ["except"])
                walk(st.orelse, conds)
                walk(st.finalbody, conds)

    walk(fn.body, [])
    out.sort()
    return [(n, c) for _l, n, c in out]


# what may raise in the conversion code (callee short names)
FALLIBLE = {
    "_sanitize_units_convert", "_check_em_conversion", "_em_conversion", "get_conversion_factor", "Unit",
    "has_equivalent", "get_base_equivalent", "get_cgs_equivalent", "get_mks_equivalent", "astype", "_cancel_mul",
    "to", "to_value", "in_units", "_sanitize_unit_system", "_coerce_iterable_units", "unit_operator", "func",
    "_apply_power_mapping", "_get_binary_op_return_class", "ret_class", "unyt_quantity", "unyt_array",
    "np.dtype", "dtype",
}
INPLACE = {"self.convert_to_units", "self.convert_to_equivalent", "this_equiv.convert", "convert", "multiply"}


def method_facts(tree, clsname):
    """(method, direct writes to self, self-methods called) for every method of a class"""
    rows = []
    c = _cls(tree, clsname)
    for f in c.body:
        if not isinstance(f, ast.FunctionDef):
            continue
        args = [a.arg for a in f.args.posonlyargs + f.args.args]
        if not args or args[0] != "self":
            continue
        ev = events(f, "self", set(), set())
        writes = [e for e in ev if e.startswith("W:")]
        calls = []
        for node in ast.walk(f):
            if isinstance(node, ast.Call) and isinstance(node.func, ast.Attribute) and _name_in(node.func.value, {"self"}):
                if node.func.attr not in calls:
                    calls.append(node.func.attr)
            # property reads that run code of the class (`self.value`, `self.v`, `self.d`) are views/copies, not writes
        # an equivalence object built with in_place=True and applied to self mutates self
        for node in ast.walk(f):
            if (isinstance(node, ast.Call) and isinstance(node.func, ast.Subscript)
                    and _dotted(node.func.value) == "equivalence_registry"
                    and any(k.arg == "in_place" and isinstance(k.value, ast.Constant) and k.value.value is True
                            for k in node.keywords)):
                writes.append("W:Equivalence(in_place=True).convert(self)")
        rows.append((f"{clsname}.{f.name}", writes, sorted(calls)))
    return rows


def equivalence_out_facts(tree):
    """for every `_convert` of equivalencies.py: does every `out=` go through `self._get_out(x)`?
    and `_get_out` returns `x` only when `self.in_place`"""
    rows = []
    for c in tree.body:
        if not isinstance(c, ast.ClassDef):
            continue
        for f in c.body:
            if isinstance(f, ast.FunctionDef) and f.name == "_convert":
                outs = []
                for node in ast.walk(f):
                    if isinstance(node, ast.Call):
                        for kw in node.keywords:
                            if kw.arg == "out":
                                outs.append(ast.unparse(kw.value))
                # augmented assignments / item assignments on x inside _convert would bypass _get_out
                direct = [e for e in events(f, "x", set(), set()) if e.startswith("W:")]
                rows.append((c.name, sorted(set(outs)), direct))
    get_out = None
    for c in tree.body:
        if isinstance(c, ast.ClassDef) and c.name == "Equivalence":
            for f in c.body:
                if isinstance(f, ast.FunctionDef) and f.name == "_get_out":
                    get_out = " ; ".join(ast.unparse(s) for s in f.body).replace("\n", " ")
    return rows, get_out or ""


# ------------------------------------------------------------------------------------------


def generate(X):
    repo = X.REPO
    arr = _load(repo, "array.py")
    uo = _load(repo, "unit_object.py")
    eq = _load(repo, "equivalencies.py")

    orders = {}
    orders["convertToUnits"] = events(_method(arr, "unyt_array", "convert_to_units"), "self", FALLIBLE, INPLACE)
    orders["convertToBase"] = events(_method(arr, "unyt_array", "convert_to_base"), "self", FALLIBLE, INPLACE)
    orders["convertToCgs"] = events(_method(arr, "unyt_array", "convert_to_cgs"), "self", FALLIBLE, INPLACE)
    orders["convertToMks"] = events(_method(arr, "unyt_array", "convert_to_mks"), "self", FALLIBLE, INPLACE)
    orders["convertToEquivalent"] = events(_method(arr, "unyt_array", "convert_to_equivalent"), "self", FALLIBLE, INPLACE,
                                           ("equivalence_registry",))
    orders["toEquivalent"] = events(_method(arr, "unyt_array", "to_equivalent"), "self", FALLIBLE, INPLACE,
                                    ("equivalence_registry",))
    orders["inUnits"] = events(_method(arr, "unyt_array", "in_units"), "self", FALLIBLE, INPLACE)
    orders["inBase"] = events(_method(arr, "unyt_array", "in_base"), "self", FALLIBLE, INPLACE)
    orders["setitem"] = events(_method(arr, "unyt_array", "__setitem__"), "self", FALLIBLE, INPLACE)
    helpers = {}
    hf = _module_func(arr, "_float_out_view")
    if hf is not None:
        helpers["_float_out_view"] = (hf, hf.args.args[0].arg)
    orders["arrayUfunc"] = events(_method(arr, "unyt_array", "__array_ufunc__"), "out", FALLIBLE, INPLACE,
                                  ("self._ufunc_registry",), helpers=helpers)
    orders["unitSimplify"] = events(_method(uo, "Unit", "simplify"), "self", FALLIBLE, INPLACE)

    facts = method_facts(arr, "unyt_array") + method_facts(arr, "unyt_quantity") + method_facts(uo, "Unit")
    eq_rows, get_out = equivalence_out_facts(eq)

    L = []
    L.append(X.header())
    L.append("set_option maxRecDepth 100000\n")
    L.append("namespace Unyt.Generated.C18\n")
    for k, ev in orders.items():
        L.append(f"/-- ordered write / fallible / in-place-call events of the routine (source order) -/\ndef {k}Order : List String := [\n  "
                 + ",\n  ".join(X.lstr(e) for e in ev) + "]\n")
    L.append("/-- (Class.method, direct writes to `self`, `self.<method>` calls) -/\ndef methodFacts : List (String × List String × List String) := [\n  "
             + ",\n  ".join("(" + X.lstr(m) + ", [" + ", ".join(X.lstr(w) for w in ws) + "], [" + ", ".join(X.lstr(c) for c in cs) + "])"
                            for m, ws, cs in facts) + "]\n")
    L.append("/-- (equivalence class, the distinct `out=` expressions of its `_convert`, direct writes to `x`) -/\n"
             "def equivalenceOuts : List (String × List String × List String) := [\n  "
             + ",\n  ".join("(" + X.lstr(c) + ", [" + ", ".join(X.lstr(o) for o in outs) + "], [" + ", ".join(X.lstr(d) for d in direct) + "])"
                            for c, outs, direct in eq_rows) + "]\n")
    L.append(f"/-- body of `Equivalence._get_out` -/\ndef getOutBody : String := {X.lstr(get_out)}\n")
    def idx(lst, x):
        return lst.index(x) if x in lst else -1

    ctu = orders["convertToUnits"]
    units_last = idx(ctu, "W:self.units") > max(idx(ctu, "W:values*="), idx(ctu, "W:np.subtract(out=values)"))
    ro_guard = ctu[: max(idx(ctu, "W:values.dtype"), 0)].count("F:raise:ValueError") >= 2
    au = orders["arrayUfunc"]
    k = idx(au, "W:out.dtype")
    out_ro_guard = k > 0 and "F:raise:ValueError" in au[max(k - 3, 0):k]
    # the integer out= is re-typed only after the operands' units have been checked (fix C01-04)
    promote_after_checks = idx(au, "W:out.dtype") > idx(au, "F:in_units") >= 0
    L.append("/-- `convert_to_units` assigns `self.units` after the data have been converted (fix C18-01) -/\n"
             f"def ctuUnitsLast : Bool := {'true' if units_last else 'false'}\n")
    L.append("/-- `convert_to_units` refuses a read-only integer buffer before re-typing it (fix C18-03) -/\n"
             f"def ctuReadonlyGuard : Bool := {'true' if ro_guard else 'false'}\n")
    L.append("/-- `__array_ufunc__` re-types an integer `out=` immediately before the kernel call, after the unit checks (fix C01-04) -/\n"
             f"def promoteAfterChecks : Bool := {'true' if promote_after_checks else 'false'}\n")
    L.append("/-- the `out=` promotion of `__array_ufunc__` refuses a read-only integer buffer before re-typing it (fix C18-03) -/\n"
             f"def outReadonlyGuard : Bool := {'true' if out_ro_guard else 'false'}\n")
    simplify_copies = not any(e.startswith("W:") for e in orders["unitSimplify"])
    L.append("/-- `Unit.simplify` builds a new unit instead of assigning `self.expr` (fix C18-02) -/\n"
             f"def simplifyCopies : Bool := {'true' if simplify_copies else 'false'}\n")
    guards = {"convertToUnits": raise_guards(_method(arr, "unyt_array", "convert_to_units")),
              "convertToEquivalent": raise_guards(_method(arr, "unyt_array", "convert_to_equivalent")),
              "floatOutView": raise_guards(hf) if hf is not None else [],
              "setitem": raise_guards(_method(arr, "unyt_array", "__setitem__")),
              "unitSimplify": raise_guards(_method(uo, "Unit", "simplify"))}
    L.append("/-- (routine, exception, guard) of every `raise` of the in-place routines: the guard is the text of the\n"
             "    enclosing `if` tests (outermost first; `not (…)` for an else branch) -/\n"
             "def raiseGuards : List (String × String × String) := [\n  "
             + ",\n  ".join(f"({X.lstr(r)}, {X.lstr(n)}, {X.lstr(c)})" for r, gs in guards.items() for n, c in gs) + "]\n")
    # the read-only refusals are recognised by their CONDITION, not by counting raises
    ro_guard = ro_guard and any(n == "ValueError" and c.endswith("not values.flags.writeable") for n, c in guards["convertToUnits"])
    out_ro_guard = out_ro_guard and any(n == "ValueError" and c.endswith("not out.flags.writeable") for n, c in guards["floatOutView"])
    reenters = "W:multiply(out=out)" in orders["arrayUfunc"]
    L.append("/-- the `out=` post-multiplication of `__array_ufunc__` is `multiply(out, mul, out=out)` on the unyt array\n"
             "    (a nested `__array_ufunc__` call) rather than on the raw buffer `out_func` -/\n"
             f"def fixupReenters : Bool := {'true' if reenters else 'false'}\n")
    L.append("end Unyt.Generated.C18\n")
    X.write_if_changed(os.path.join(X.GEN, "C18Order.lean"), "\n".join(L))
    return {"orders": orders, "methodFacts": [[m, ws, cs] for m, ws, cs in facts],
            "equivalenceOuts": [[c, outs, d] for c, outs, d in eq_rows], "getOutBody": get_out, "fixupReenters": reenters,
            "simplifyCopies": simplify_copies, "ctuUnitsLast": units_last, "ctuReadonlyGuard": ro_guard, "outReadonlyGuard": out_ro_guard,
            "promoteAfterChecks": promote_after_checks,
            "raiseGuards": [[r, n, c] for r, gs in guards.items() for n, c in gs]}
