"""C17 translator plugin: the ufunc chain of every equivalence branch on INTEGER input, copy mode.

For every registered equivalence and every ordered pair of its dimensions that `_convert` handles
(32 branches on the pinned tree) the branch is run on an int64 `unyt_array` in the MKS unit of the
source dimension while `unyt_array.__array_ufunc__` is wrapped (restored afterwards) by a recorder:
each top-level ufunc call that touches the raw input or something derived from it is logged as

    (ufunc name, [operand tag], result kind)      tag = raw | derived | const | pyint | pyfloat
                                                  each with the dtype kind it had (i/u/f/c/b)

Written to lean/UnytModel/Generated/EquivChains.lean for the kernel-decided obligation "no branch
does integer arithmetic on the raw input" (UnytProofs/C17Chains.lean) and to
build/extract_c17_equiv_chains.json (branch list + MKS unit strings) for the harness' value sweep.
"""
import os

import numpy as np


def trace_branches():
    import unyt
    import unyt.array as UA
    from unyt import unyt_array
    from unyt.equivalencies import equivalence_registry
    from unyt.unit_systems import mks_unit_system

    branches = []
    orig = UA.unyt_array.__array_ufunc__
    state = {"depth": 0, "log": None, "raw": None, "derived": []}

    def tag(i):
        if isinstance(i, np.ndarray):
            a = np.asarray(i)
            if state["raw"] is not None and np.shares_memory(a, state["raw"]):
                return ["raw", a.dtype.kind]
            if any(np.shares_memory(a, d) for d in state["derived"]):
                return ["derived", a.dtype.kind]
            return ["const", a.dtype.kind]
        if isinstance(i, (bool, int, np.integer)):
            return ["pyint", "i"]
        if isinstance(i, (float, np.floating)):
            return ["pyfloat", "f"]
        if isinstance(i, (complex, np.complexfloating)):
            return ["pyfloat", "c"]
        return ["const", "O"]

    def wrapped(self, ufunc, method, *inputs, **kwargs):
        top = state["depth"] == 0 and state["log"] is not None
        tags = [tag(i) for i in inputs] if top else None
        state["depth"] += 1
        try:
            r = orig(self, ufunc, method, *inputs, **kwargs)
        finally:
            state["depth"] -= 1
        if top and any(t[0] in ("raw", "derived") for t in tags):
            ra = np.asarray(r)
            state["log"].append([ufunc.__name__, tags, ra.dtype.kind, "out" in kwargs])
            if isinstance(r, np.ndarray) and r.ndim > 0:
                state["derived"].append(ra)
        return r

    UA.unyt_array.__array_ufunc__ = wrapped
    try:
        with np.errstate(all="ignore"):
            for name, cls in equivalence_registry.items():
                for a in cls._dims:
                    for b in cls._dims:
                        if a == b:
                            continue
                        ua, ub = mks_unit_system[a], mks_unit_system[b]
                        raw = np.array([2, 3, 5], dtype="int64")
                        x = unyt_array(raw, ua)
                        state.update(log=[], raw=np.asarray(x), derived=[])
                        try:
                            r = cls()._convert(x, b)
                        finally:
                            log = state["log"]
                            state.update(log=None, raw=None, derived=[])
                        if r is None:
                            continue
                        if not log:
                            raise RuntimeError(f"no ufunc recorded for {name} {a} -> {b}")
                        branches.append({"equiv": name, "from_dim": str(a), "to_dim": str(b), "from_unit": str(ua), "to_unit": str(ub),
                                         "result_kind": np.asarray(r).dtype.kind, "steps": log})
    finally:
        UA.unyt_array.__array_ufunc__ = orig
    return branches


TAGS = {"raw": ".raw", "derived": ".derived", "const": ".const", "pyint": ".pyint", "pyfloat": ".pyfloat"}


def generate(X):
    branches = trace_branches()

    def lk(k):
        if k not in "iufcb":
            raise ValueError(f"operand kind {k!r} outside the modelled kinds")
        return "." + k

    L = [X.header("UnytModel.EquivChain"), "namespace Unyt.Generated\nopen Unyt\n"]
    L.append("/-- ufunc chain of every equivalence branch on int64 input, copy mode (recorded on the live code) -/")
    L.append("def equivChains : List ChainBranch := [")
    rows = []
    for b in branches:
        steps = []
        for (uf, tags, rk, has_out) in b["steps"]:
            ops = ", ".join(f"⟨{TAGS[t]}, {lk(k)}⟩" for t, k in tags)
            steps.append(f"⟨{X.lstr(uf)}, [{ops}], {lk(rk)}⟩")
        rows.append(f"  ⟨{X.lstr(b['equiv'])}, {X.lstr(b['from_dim'])}, {X.lstr(b['to_dim'])}, [" + ", ".join(steps) + "]⟩")
    L.append(",\n".join(rows) + "]")
    L.append("\nend Unyt.Generated\n")
    X.write_if_changed(os.path.join(X.GEN, "EquivChains.lean"), "\n".join(L))
    return {"branches": branches}
