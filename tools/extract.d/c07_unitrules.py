"""Translator plugin for C07: regenerates lean/UnytModel/Generated/UnitRules.lean — the UNIT RULE every
handler of the live /repo/unyt/_array_functions.py applies to its result, per catalogue call form.

Dynamic probing (harness/c07_probe.py): every template of every handled function is run, for several
shapes / data seeds, on operands whose units are fresh symbols of a custom registry (`s0`, `s1`, `s2`
with prime scales; out= buffers carry `sout`); the exponent vector of the result unit over those
symbols is read per result leaf.  Exponents that vary with the shapes are fitted, function-wide, to
the expression language of UnytModel/UnitRules.lean (`shape[i]`, `size // result.size`); what cannot
be explained becomes `.unknown` (and fails the table obligation).  An `ast` pass over the handler
sources collects every `<units> ** <exponent>` and translates the exponent into the same language, so
that the fitted (sampled) rule is cross-checked against the source (all shapes) by the Lean kernel.

Seeds are fixed (0, 1, 2): the generated file is a function of the source only.
"""
import ast
import inspect
import os
import sys
import textwrap
import warnings
from fractions import Fraction

SEEDS = (0, 1, 2)


def _static_expos(AF, C):
    """[(function id, exponent expression)] for every `X ** e` in a handler (or a helper defined in the
    module) where X mentions `.units` / a name containing 'units'"""
    out = []

    def mentions_units(n):
        for m in ast.walk(n):
            if isinstance(m, ast.Attribute) and m.attr == "units":
                return True
            if isinstance(m, ast.Name) and "units" in m.id:
                return True
        return False

    def tr(n):
        if isinstance(n, ast.Constant) and isinstance(n.value, (int, float)):
            return ("const", str(Fraction(n.value).limit_denominator(1000)))
        if isinstance(n, ast.UnaryOp) and isinstance(n.op, ast.USub):
            x = tr(n.operand)
            if x and x[0] == "const":
                return ("const", str(-Fraction(x[1])))
            return ("unknown",)
        if isinstance(n, ast.Subscript) and isinstance(n.value, ast.Attribute) and n.value.attr == "shape" and isinstance(n.value.value, ast.Name):
            i = n.slice
            if isinstance(i, ast.Constant) and isinstance(i.value, int):
                return ("dim", n.value.value.id, i.value)
            if isinstance(i, ast.UnaryOp) and isinstance(i.op, ast.USub) and isinstance(i.operand, ast.Constant):
                return ("dim", n.value.value.id, -i.operand.value)
            return ("unknown",)
        if isinstance(n, ast.BinOp) and isinstance(n.op, ast.FloorDiv):
            a, b = n.left, n.right
            if (isinstance(a, ast.Attribute) and a.attr == "size" and isinstance(a.value, ast.Name)
                    and isinstance(b, ast.Attribute) and b.attr == "size" and isinstance(b.value, ast.Name)):
                return ("sizeRatio", a.value.id)
            return ("unknown",)
        return ("unknown",)

    for f, h in AF._HANDLED_FUNCTIONS.items():
        fid = C.name_of(f)
        if fid is None:
            continue
        # the handler and every module-level helper it calls (product_helper, _histogram*, diff_helper,
        # _quantile_helper, clip_impl, _linspace, …), two levels deep
        seen, todo = set(), [(h, 0)]
        while todo:
            fn, depth = todo.pop()
            if fn in seen:
                continue
            seen.add(fn)
            try:
                tree = ast.parse(textwrap.dedent(inspect.getsource(fn)))
            except Exception:  # noqa: BLE001
                continue
            for n in ast.walk(tree):
                if isinstance(n, ast.BinOp) and isinstance(n.op, ast.Pow) and mentions_units(n.left):
                    out.append((fid, tr(n.right)))
                if isinstance(n, ast.Call) and isinstance(n.func, ast.Name) and depth < 2:
                    g = getattr(AF, n.func.id, None)
                    if inspect.isfunction(g) and g.__module__ == AF.__name__:
                        todo.append((g, depth + 1))
    return sorted(set(out), key=repr)


def generate(X):
    warnings.simplefilter("ignore")
    harness = os.path.join(os.path.dirname(os.path.dirname(os.path.dirname(os.path.abspath(__file__)))), "harness")
    if harness not in sys.path:
        sys.path.insert(0, harness)
    import numpy as np

    np.seterr(all="ignore")
    import npcatalog as C
    import c07_probe as P
    import unyt._array_functions as AF

    L = X.lstr
    handled = {C.name_of(f) for f in AF._HANDLED_FUNCTIONS}

    # ---------------------------------------------------------------- dynamic probe
    byform = {}
    forder = []
    for t in C.templates("function"):
        f = C.canonical_func(t)
        if f not in handled:
            continue
        dts = [d for d in t.dtypes if d != "i"] or list(t.dtypes)
        for sc in t.shapes:
            for dk in dts:
                for seed in SEEDS:
                    for om in (("unyt", "bare") if t.out_form else ("unyt",)):
                        r = P.probe_case(t, dk, sc, seed, om)
                        if r is None:
                            continue
                        r["kappa"] = P.probe_kappa(t, dk, sc, seed, om, r) if r["outcome"] == "ok" else None
                        k = (f, t.variant, om, P.form_of(r))
                        if k not in byform:
                            byform[k] = []
                            forder.append(k)
                        byform[k].append(r)

    def tail_pattern(lv):
        return len(lv) >= 2 and all((x["carries"], x["cls"], x["expo"]) == (lv[1]["carries"], lv[1]["cls"], lv[1]["expo"]) for x in lv[2:])

    rows = {}
    order = []
    for k in forder:
        oks = [r for r in byform[k] if r["outcome"] == "ok"]
        # the number of leaves varies with the shapes and every result is  h, r, r, r, …  (one leaf per row
        # of an operand): collapse to  h, r  with `tailRepeats`
        collapse = len({len(r["leaves"]) for r in oks}) > 1 and all(tail_pattern(r["leaves"]) for r in oks)
        for r in byform[k]:
            if r["outcome"] == "ok":
                if collapse:
                    r["leaves"] = r["leaves"][:2]
                    r["tail_repeats"] = True
                struct = (r.get("tail_repeats", False),) + tuple((lf["carries"], lf["expo"] is None) for lf in r["leaves"])
            else:
                struct = r["outcome"]
            key = k + (struct,)
            if key not in rows:
                rows[key] = []
                order.append(key)
            rows[key].append(r)

    # ---------------------------------------------------------------- function-wide fit of varying exponents
    def observations(recs, li, g):
        return [(r, r["leaves"][li], Fraction(r["leaves"][li]["expo"].get("s" + g, "0"))) for r in recs
                if r["outcome"] == "ok" and li < len(r["leaves"]) and r["leaves"][li]["expo"] is not None]

    by_func = {}
    for key in order:
        by_func.setdefault(key[0], []).append(key)
    fitted = {}  # (func, leaf index, group) -> expression (function-wide) or None
    for f, keys in by_func.items():
        allrecs = [r for k in keys for r in rows[k]]
        nleaf = max([len(r["leaves"]) for r in allrecs] + [0])
        for li in range(nleaf):
            for g in ("0", "1", "2"):
                varying = False
                for k in keys:
                    vals = {v for _r, _l, v in observations(rows[k], li, g)}
                    if len(vals) > 1:
                        varying = True
                if not varying:
                    continue
                obs = [o for o in observations(allrecs, li, g) if any(gg == g for _n, gg in o[0]["operands"])]
                cands = {}
                for r, _lf, _v in obs:
                    for e, fn in P.candidates(r, g):
                        cands.setdefault(e, fn)
                best = None
                for e, fn in cands.items():
                    if all(fn(r, lf) == v for r, lf, v in obs):
                        best = e
                        break
                fitted[(f, li, g)] = best

    def leaf_expo(key, li, g):
        f = key[0]
        obs = observations(rows[key], li, g)
        vals = {v for _r, _l, v in obs}
        if (f, li, g) in fitted and any(gg == g for _n, gg in rows[key][0]["operands"]):
            e = fitted[(f, li, g)]
            if e is None:
                return ("unknown",)
            # the function-wide expression must explain this row too
            for e2, fn in P.candidates(rows[key][0], g):
                if e2 == e and all(fn(r, lf) == v for r, lf, v in obs):
                    return e
            return ("unknown",)
        if len(vals) == 1:
            return ("const", P.fstr(next(iter(vals))))
        return ("unknown",)

    out_rows = []
    for key in order:
        f, variant, om, form, struct = key
        recs = rows[key]
        r0 = recs[0]
        raised = r0["outcome"] != "ok"
        leaves = []
        if not raised:
            for li, lf0 in enumerate(r0["leaves"]):
                cls = "|".join(sorted({r["leaves"][li]["cls"] for r in recs}))
                ks = {r["kappa"][li] for r in recs if r.get("kappa") is not None and li < len(r["kappa"])}
                kappa = "1" if not ks else (next(iter(ks)) if len(ks) == 1 else "0")  # "0": varies with the shapes
                if lf0["expo"] is None:
                    leaves.append((lf0["carries"], cls, [("?", ("unknown",))], kappa))
                    continue
                ex = []
                names = sorted({k for r in recs for k in r["leaves"][li]["expo"]})
                for sname in names:
                    g = sname[1:]
                    if g == "out":
                        vals = {r["leaves"][li]["expo"].get("sout", "0") for r in recs}
                        ex.append(("out", ("const", next(iter(vals))) if len(vals) == 1 else ("unknown",)))
                    else:
                        e = leaf_expo(key, li, g)
                        if not (e[0] == "const" and Fraction(e[1]) == 0):
                            ex.append((g, e))
                leaves.append((lf0["carries"], cls, ex, kappa))
        out_label = None
        if not raised and om == "unyt" and any(r["out_label"] is not None for r in recs):
            labs = {tuple(sorted(r["out_label"].items())) for r in recs if r["out_label"] is not None}
            if len(labs) == 1:
                out_label = [(k[1:], ("const", v)) for k, v in next(iter(labs))]
            else:
                # shape-dependent label of the buffer: re-use the fit of the first leaf
                names = sorted({k for lab in labs for k, _v in lab})
                out_label = [(k[1:], leaf_expo(key, 0, k[1:]) if k != "sout" else ("unknown",)) for k in names]
        out_rows.append(dict(func=f, variant=variant, out_mode=om, operands=r0["operands"], flags=r0["flags"], raised=raised,
                             exc="|".join(sorted({r["outcome"].split(":", 1)[1] for r in recs})) if raised else "",
                             leaves=leaves, out_label=out_label, n=len(recs), form=form,
                             tail_repeats=bool(not raised and r0.get("tail_repeats", False)),
                             kappa_unobserved=(not raised and all(r.get("kappa") is None for r in recs))))

    statics = _static_expos(AF, C)

    # ---------------------------------------------------------------- Lean
    def lexpo(e):
        return P.expo_lean(e, L)

    def llabel(lab):
        return "[" + ", ".join(f"({L(g)}, {lexpo(e)})" for g, e in lab) + "]"

    def lrow(r):
        ops = ", ".join(f"({L(n)}, {L(g)})" for n, g in r["operands"])
        fl = ", ".join(f"({L(n)}, {L(v)})" for n, v in r["flags"])
        lv = ", ".join(f"⟨{'true' if c else 'false'}, {L(cls)}, {llabel(ex)}, {lexpo(('const', kp))[7:]}⟩" for c, cls, ex, kp in r["leaves"])
        ol = "none" if r["out_label"] is None else f"some {llabel(r['out_label'])}"
        return (f"  ⟨{L(r['func'])}, {L(r['variant'])}, {L(r['out_mode'])}, [{ops}], [{fl}], {'true' if r['raised'] else 'false'}, "
                f"{L(r['exc'])}, [{lv}], {ol}, {'true' if r['tail_repeats'] else 'false'}, {r['n']}⟩")

    nchunk = 4
    per = (len(out_rows) + nchunk - 1) // nchunk
    chunks = []
    for i in range(nchunk):
        part = out_rows[i * per:(i + 1) * per]
        chunks.append(f"def ruleRows{i} : List UR.Row := [\n" + ",\n".join(lrow(r) for r in part) + "\n]\n")
    text = (
        X.header("UnytModel.UnitRules")
        + "namespace Unyt.Generated\nopen Unyt.UR\n\n"
        + "/-- `ast` pass: every `<units> ** <exponent>` in a handler, exponent translated -/\n"
        + "def staticExpos : List (String × UR.Expo) := [\n"
        + ",\n".join(f"  ({L(f)}, {lexpo(e)})" for f, e in statics) + "\n]\n\n"
        + "/-- dynamic probe: handler × catalogue call form (distinct records), in chunks -/\n"
        + "\n".join(chunks)
        + "\ndef ruleRows : List UR.Row := " + " ++ ".join(f"ruleRows{i}" for i in range(nchunk)) + "\n"
        + "\nend Unyt.Generated\n"
    )
    X.write_if_changed(os.path.join(X.GEN, "UnitRules.lean"), text)
    return {
        "handled": sorted(handled),
        "statics": [(f, P.expo_wire(e)) for f, e in statics],
        "rows": [dict(func=r["func"], variant=r["variant"], out_mode=r["out_mode"], form=r["form"], operands=r["operands"],
                      flags=r["flags"], raised=r["raised"], exc=r["exc"], n=r["n"], tail_repeats=r["tail_repeats"],
                      leaves=[dict(carries=c, cls=cls, expo=[(g, P.expo_wire(e)) for g, e in ex], kappa=kp) for c, cls, ex, kp in r["leaves"]],
                      kappa_unobserved=r["kappa_unobserved"],
                      out_label=None if r["out_label"] is None else [(g, P.expo_wire(e)) for g, e in r["out_label"]])
                 for r in out_rows],
    }
