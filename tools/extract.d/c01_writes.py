"""C01 translator plugin: which objects `unyt_array.__array_ufunc__` and `_coerce_iterable_units`
write through — by an `ast` pass over unyt/array.py.

The model's `Effect` type only has effects on `out=` arrays; that the dispatcher never writes
through an *input* operand is a fact about the source, regenerated here:
  * input aliases: the names bound to the inputs or to views of them (`inputs[k]`, `x.view(…)`,
    `np.asarray(x)`, `_coerce_iterable_units(x)`, loop variables over `inputs`), to a fixpoint;
  * write sites: every store through a subscript or attribute (`x[...] = `, `x.attr = `), every
    augmented assignment, every `out=` keyword and third positional argument of a NumPy call,
    `np.copyto(dst, …)`, in-place methods (`fill`, `put`, `sort`, `resize`, `convert_to_*`), with
    the base name of the object written.
Writes lean/UnytModel/Generated/C01Writes.lean.
"""
import ast
import os

INPLACE_METHODS = {"fill", "put", "sort", "resize", "itemset", "partition", "convert_to_units",
                   "convert_to_base", "convert_to_cgs", "convert_to_mks", "setfield", "byteswap"}
ALIAS_CALLS = {"np.asarray", "np.asanyarray", "_coerce_iterable_units", "np.array"}


def base(n):
    while True:
        if isinstance(n, (ast.Subscript, ast.Attribute, ast.Starred)):
            n = n.value
        elif isinstance(n, ast.Call):
            f = ast.unparse(n.func)
            if isinstance(n.func, ast.Attribute) and n.func.attr == "view":
                n = n.func.value
            elif f in ALIAS_CALLS and n.args:
                n = n.args[0]
            else:
                return "<call " + f + ">"
        else:
            break
    return n.id if isinstance(n, ast.Name) else "<" + type(n).__name__ + ">"


def may_alias(value, aliases):
    """does the value expression denote (a view of) an aliased object?  arithmetic makes new arrays"""
    if isinstance(value, ast.Name):
        return value.id in aliases
    if isinstance(value, (ast.Subscript, ast.Attribute, ast.Starred)):
        return may_alias(value.value, aliases)
    if isinstance(value, ast.Call):
        f = ast.unparse(value.func)
        if isinstance(value.func, ast.Attribute) and value.func.attr == "view":
            return may_alias(value.func.value, aliases)
        if f in ALIAS_CALLS and value.args and not any(k.arg == "dtype" for k in value.keywords):
            return may_alias(value.args[0], aliases)
        return False
    if isinstance(value, (ast.Tuple, ast.List)):
        return any(may_alias(e, aliases) for e in value.elts)
    if isinstance(value, ast.IfExp):
        return may_alias(value.body, aliases) or may_alias(value.orelse, aliases)
    if isinstance(value, ast.BoolOp):
        return any(may_alias(v, aliases) for v in value.values)
    return False


def analyse(fn, roots):
    aliases = set(roots)
    changed = True
    while changed:
        changed = False
        for n in ast.walk(fn):
            tg, val = None, None
            if isinstance(n, ast.Assign):
                tg, val = n.targets, n.value
            elif isinstance(n, ast.For):
                tg, val = [n.target], n.iter
            if tg is None:
                continue
            if may_alias(val, aliases):
                for t in tg:
                    for e in (t.elts if isinstance(t, (ast.Tuple, ast.List)) else [t]):
                        if isinstance(e, ast.Name) and e.id not in aliases:
                            aliases.add(e.id)
                            changed = True
    sites = []
    for n in ast.walk(fn):
        if isinstance(n, ast.Assign):
            for t in n.targets:
                for e in (t.elts if isinstance(t, (ast.Tuple, ast.List)) else [t]):
                    if not isinstance(e, ast.Name):
                        sites.append((n.lineno, "store", base(e), ast.unparse(e)))
        elif isinstance(n, ast.AugAssign):
            sites.append((n.lineno, "augassign", base(n.target), ast.unparse(n.target)))
        elif isinstance(n, ast.Call):
            f = ast.unparse(n.func)
            for k in n.keywords:
                if k.arg == "out":
                    sites.append((n.lineno, "out=", base(k.value), ast.unparse(k.value)))
            if f == "np.copyto" and n.args:
                sites.append((n.lineno, "copyto", base(n.args[0]), ast.unparse(n.args[0])))
            if isinstance(n.func, ast.Attribute) and n.func.attr in INPLACE_METHODS:
                sites.append((n.lineno, "method." + n.func.attr, base(n.func.value), ast.unparse(n.func.value)))
            if (f.startswith("np.") or f in ("multiply", "divide", "add", "subtract")) and len(n.args) >= 3 \
                    and f not in ("np.where", "np.clip", "np.linspace", "np.full", "np.arange", "np.interp"):
                sites.append((n.lineno, "positional-out", base(n.args[2]), ast.unparse(n.args[2])))
    return sorted(aliases), sites


def generate(X):
    src = open(os.path.join(X.REPO, "unyt", "array.py"), encoding="utf-8").read()
    tree = ast.parse(src)
    fns = {n.name: n for n in ast.walk(tree) if isinstance(n, ast.FunctionDef)}
    disp = fns["__array_ufunc__"]
    coer = fns["_coerce_iterable_units"]
    d_alias, d_sites = analyse(disp, ["inputs"])
    c_alias, c_sites = analyse(coer, ["input_object"])
    L = X.lstr

    def rows(sites):
        return ",\n".join(f"  ({L(k)}, {L(b)}, {L(e)})" for _ln, k, b, e in sites)

    text = (
        X.header()
        + "namespace Unyt.Generated\n\n"
        + "/-- names bound to the inputs of `__array_ufunc__` or to views of them (ast, fixpoint) -/\n"
        + "def dispatcherInputAliases : List String := [" + ", ".join(L(a) for a in d_alias) + "]\n\n"
        + "/-- every write site of `__array_ufunc__`: (kind, base name of the object written, expression) -/\n"
        + "def dispatcherWriteSites : List (String × String × String) := [\n" + rows(d_sites) + "\n]\n\n"
        + "def coerceInputAliases : List String := [" + ", ".join(L(a) for a in c_alias) + "]\n\n"
        + "def coerceWriteSites : List (String × String × String) := [\n" + rows(c_sites) + "\n]\n\n"
        + "end Unyt.Generated\n"
    )
    X.write_if_changed(os.path.join(X.GEN, "C01Writes.lean"), text)
    return {"dispatcher_aliases": d_alias, "dispatcher_sites": d_sites, "coerce_aliases": c_alias, "coerce_sites": c_sites}
