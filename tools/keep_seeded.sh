#!/bin/bash
# maintainer helper: verify an attacker's worktree ($1 = /tmp/atk/C03-a, $2 = property id, $3 = seeded id) and keep it under /verif/seeded/<id>/
set -e
w=$1; prop=$2; sid=$3
cd $w
git diff -- unyt > /tmp/atk/$sid.patch
[ -s /tmp/atk/$sid.patch ] || { echo "empty patch"; exit 1; }
s1=$(/venv/bin/python /verif/tools/suite_check.py $w | head -1)
d1=0; PYTHONPATH=$w /venv/bin/python -W ignore demo.py >/tmp/atk/$sid.demo_patched.log 2>&1 || d1=$?
git apply -R /tmp/atk/$sid.patch
d0=0; PYTHONPATH=$w /venv/bin/python -W ignore demo.py >/tmp/atk/$sid.demo_clean.log 2>&1 || d0=$?
git apply /tmp/atk/$sid.patch
echo "$sid: $s1 | demo patched rc=$d1 clean rc=$d0"
case "$s1" in *"not passing: 0"*) ;; *) echo "REJECT: suite"; exit 1;; esac
[ $d1 -ne 0 ] && [ $d0 -eq 0 ] || { echo "REJECT: demo"; exit 1; }
mkdir -p /verif/seeded/$sid
cp /tmp/atk/$sid.patch /verif/seeded/$sid/patch.diff
cp demo.py /verif/seeded/$sid/demo.py
cp notes.md /verif/seeded/$sid/notes.md 2>/dev/null || true
/venv/bin/python - "$prop" "$sid" "$s1" "$d1" "$d0" <<'PY'
import json,sys,re,os
prop,sid,s1,d1,d0=sys.argv[1:]
notes=open(f"/verif/seeded/{sid}/notes.md").read() if os.path.exists(f"/verif/seeded/{sid}/notes.md") else ""
json.dump({"property":prop,"id":sid,"origin":"independent sub-agent given only the property text and a scratch worktree of /repo",
 "needs_to_manifest":"see notes.md",
 "verified_by_maintainer":{"suite":s1,"demo_rc_with_change":int(d1),"demo_rc_without_change":int(d0),
   "commands":["tools/suite_check.py <worktree>","PYTHONPATH=<worktree> /venv/bin/python demo.py (with change, then after git stash -- unyt)"]}},
 open(f"/verif/seeded/{sid}/meta.json","w"),indent=1)
PY
