#!/venv/bin/python
"""maintainer helper: write TASK.md into each attacker worktree /tmp/atk/<Cnn-x> (created with
`git -C /repo worktree add --detach /tmp/atk/<Cnn-x> HEAD`).  The attacker is told only the property text, its
worktree and the one-line titles of earlier seeded changes of that property (to avoid repeats) — nothing about the checks.
NOTE: never tell parallel attackers to use `git stash` (refs/stash is shared by all worktrees of one repository)."""
import glob, json, os
V = os.path.dirname(os.path.dirname(os.path.abspath(__file__)))
props = {json.loads(l)["id"]: json.loads(l) for l in open(os.path.join(V, "properties.jsonl"))}
for d in sorted(glob.glob("/tmp/atk/C*-*")):
    sid = os.path.basename(d); pid = sid.split("-")[0]; p = props[pid]
    prev = []
    for s in sorted(glob.glob(os.path.join(V, "seeded", f"{pid}-*", "notes.md"))):
        lines = [l.strip() for l in open(s) if l.strip()]
        prev.append("- " + " ".join(lines[:4])[:420])
    q = p.get("quantifier", {})
    open(os.path.join(d, "TASK.md"), "w").write(f"""# Task: write a subtle breaking change for one property of yt-project/unyt

You are working in a scratch git worktree of the unyt library: `{d}` (detached checkout; package `{d}/unyt`). Work ONLY
inside this directory; do not read or write anything under `/verif` or `/repo`. Use `/venv/bin/python`; run code with
`cd {d} && PYTHONPATH={d} /venv/bin/python ...`.

## The property (this is all you are told)

**{p['id']} — {p['title']}**

{p['statement']}

Quantified: {q.get('text','')}

## What to produce

A change to the library source (under `{d}/unyt/`, NOT the tests) that a plausible maintainer could have made (refactor,
optimisation, fast path, cache, tidy-up) and that **breaks this property** while the package still imports and the existing
test-suite passes exactly as before (`cd {d} && PYTHONPATH={d} /venv/bin/python -m pytest -q -p no:cacheprovider -W ignore unyt/tests 2>&1 | tail -3`;
measure the unchanged tree first: the set of passing tests must not shrink).  It must need **something specific to manifest** — a
particular multi-step sequence, an unusual input or unit, a rarely used keyword or dtype, an earlier call (history / caching), or
two cooperating sites that each look fine alone — not something ordinary use exposes at once, and it must be a real violation of the
property as stated.

Already tried in earlier rounds — do something genuinely different:
{chr(10).join(prev)}

## Deliverables (in `{d}`)
1. the source change, left **uncommitted** (`git diff -- unyt` shows it);
2. `demo.py`: exits non-zero (assert) with the change and 0 without it.  To test "without": `git diff -- unyt > .p; git apply -R .p; <run>; git apply .p`
   — do NOT use `git stash` (shared between worktrees).  Do not assert where `unyt.__file__` lives;
3. `notes.md`: title line `# {sid}: <one-line summary>`, the change, why it looks innocent, what is needed to manifest, which clause it violates.
Final answer: five lines (files changed, what manifests it, suite result with/without, demo exit codes with/without).
""")
    print("wrote", d)
