#!/usr/bin/env python3
"""developer helper: print what the C16 replay files written by the last run say"""
import glob
import json
import os
import sys

VERIF = os.path.dirname(os.path.dirname(os.path.abspath(__file__)))
since = float(sys.argv[1]) if len(sys.argv) > 1 else 0.0
for f in sorted(glob.glob(os.path.join(VERIF, "replays", "C16-*.json")), key=os.path.getmtime):
    if os.path.getmtime(f) < since:
        continue
    d = json.load(open(f))
    print("==", os.path.basename(f), d["key"], "|", d["what"][:200])
    u = d.get("unchecked") or {}
    for b in u.get("broken_obligations", []):
        print("  BROKEN", b["theorem"], b["detail"][:400])
    for c in u.get("correspondence_disagreements", []):
        print("  DISAGREE", c["opcode"], c["detail"][:400])
    for b in d.get("broken_obligations", []):
        print("  BROKEN", b["theorem"], b["detail"][:400])
