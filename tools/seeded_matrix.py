#!/usr/bin/env python3
"""maintainer helper: summarise seeded/*/{meta,result_quick}.json into seeded/MATRIX.md"""
import json, os, glob
V = os.path.dirname(os.path.dirname(os.path.abspath(__file__)))
rows = []
for d in sorted(glob.glob(os.path.join(V, "seeded", "C*"))):
    sid = os.path.basename(d)
    meta = json.load(open(os.path.join(d, "meta.json")))
    notes = open(os.path.join(d, "notes.md"), encoding="utf-8").read() if os.path.exists(os.path.join(d, "notes.md")) else ""
    res = {}
    for t in ("quick", "thorough"):
        p = os.path.join(d, f"result_{t}.json")
        if os.path.exists(p):
            res[t] = json.load(open(p))
    r = res.get("quick") or res.get("thorough") or {}
    caught_by = []
    paths = set()
    for prop, c in (r.get("checks") or {}).items():
        if c.get("rc") == 1 and c.get("violations"):
            withinput = any(x.get("on_patched_rc", 0) != 0 for x in c.get("replays", []))
            caught_by.append(prop + ("" if withinput else " (no-failing-input-found)"))
            for _p, path, _t in c["violations"][:50]:
                try:
                    rp = json.load(open(path))
                    if rp.get("broken_obligations") or (rp.get("unchecked") or {}).get("broken_obligations"):
                        paths.add("proof obligation")
                    if rp.get("replay"):
                        paths.add("direct oracle")
                    if (rp.get("unchecked") or {}).get("correspondence_disagreements"):
                        paths.add("correspondence")
                except Exception:
                    pass
    status = "caught" if r.get("caught") else ("obsolete after fix" if meta.get("obsolete_after_fix") else ("not run" if not r else "MISSED"))
    files = sorted({l.split(" b/")[-1].strip() for l in open(os.path.join(d, "patch.diff")) if l.startswith("diff --git")})
    rows.append((sid, meta["property"], ", ".join(files), status, ", ".join(caught_by), ", ".join(sorted(paths)), "rebased" if meta.get("rebased") else ""))
out = ["# Seeded breaking changes and the checks that catch them", "",
       "Each change was written by an independent sub-agent that saw only the property text and a scratch worktree of /repo;",
       "the maintainer confirmed: unyt's suite passes with it (652/652 baseline tests), its demo fails with it and passes without.",
       "`tools/run_seeded.py` applies it to a scratch copy, runs the property's quick check (`UNYT_REPO=<copy>`), and replays the reported inputs on both trees.", "",
       "| id | property | files changed | outcome (quick tier) | checks that exit 1 | replays written by | note |", "|---|---|---|---|---|---|---|"]
for r in rows:
    out.append("| " + " | ".join(r) + " |")
open(os.path.join(V, "seeded", "MATRIX.md"), "w").write("\n".join(out) + "\n")
print("\n".join(out[8:]))
