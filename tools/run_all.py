#!/usr/bin/env python3
"""maintainer helper: run every check claimed in MANIFEST.json (tier/seeds/jobs selectable) and summarise.
   tools/run_all.py [--tier quick] [--seeds 0,1] [-j 4] [C01 C02 ...]"""
import argparse, json, os, subprocess, sys, time
from concurrent.futures import ThreadPoolExecutor
VERIF = os.path.dirname(os.path.dirname(os.path.abspath(__file__)))
ap = argparse.ArgumentParser()
ap.add_argument("props", nargs="*")
ap.add_argument("--tier", default="quick")
ap.add_argument("--seeds", default="0")
ap.add_argument("-j", type=int, default=4)
a = ap.parse_args()
m = json.load(open(os.path.join(VERIF, "MANIFEST.json")))
props = a.props or [c["property_id"] for c in m["checks"]]
jobs = [(p, int(s)) for s in a.seeds.split(",") for p in props]
def run(job):
    p, s = job
    t0 = time.time()
    env = dict(os.environ, VERIF_SEED=str(s))
    if len(jobs) > len(props):  # several seeds: keep the committed evidence from seed 0 only
        if s != 0:
            env["VERIF_EVIDENCE_DIR"] = os.path.join(VERIF, "build", f"evidence_seed{s}")
    r = subprocess.run([os.path.join(VERIF, "vcheck"), p, "--tier", a.tier], cwd=VERIF, env=env, capture_output=True, text=True)
    out = r.stdout + r.stderr
    nk = out.count("KNOWN-FINDING:")
    viol = [l for l in out.splitlines() if l.startswith("VIOLATION")]
    return p, s, r.returncode, round(time.time() - t0, 1), nk, viol, out[-600:] if r.returncode not in (0,) else ""
bad = 0
with ThreadPoolExecutor(a.j) as ex:
    for p, s, rc, dt, nk, viol, tail in ex.map(run, jobs):
        print(f"{p} seed={s} rc={rc} {dt}s known={nk} {' | '.join(viol[:3])}")
        if rc != 0:
            bad += 1
            print("   " + tail.replace("\n", "\n   "))
        sys.stdout.flush()
sys.exit(1 if bad else 0)
