#!/bin/bash
# maintainer helper: merge a builder branch into main (evidence conflicts: take theirs; MANIFEST regenerated)
set -u
cd /verif
b=$1
if [ -n "$(git status --porcelain | grep -v '^??')" ]; then git add -A; git commit -qm "wip before merging $b"; fi
git merge --no-edit "$b" >/tmp/merge_$b.log 2>&1
git checkout --ours MANIFEST.json 2>/dev/null
for f in $(git status --short | grep '^UU\|^AA' | awk '{print $2}'); do git checkout --theirs -- "$f"; done
python3 tools/make_manifest.py
git add -A
git commit -qm "merge $b" 2>/dev/null
if git merge-base --is-ancestor "$b" main; then echo "$b merged ($(git log -1 --format=%h))"; else echo "$b NOT MERGED"; tail -5 /tmp/merge_$b.log; exit 1; fi
