#!/venv/bin/python
"""maintainer helper: run registered checks against the seeded breaking changes in /verif/seeded/.

  tools/run_seeded.py [--tier quick] [--inplace] [<seeded id> ...]        (default: all)

For each /verif/seeded/<id>/ (patch.diff, demo.py, meta.json {"property": "Cnn", ...}):
  default mode: rsync /repo → /tmp/seeded_run/<id>, `git apply` the patch there, and run
      UNYT_REPO=<copy> ./vcheck <prop> --tier <tier>
    (nothing in /repo is touched, so builders/other checks are not disturbed);
  --inplace: `git -C /repo apply patch.diff`, run the check against /repo itself, then
      `git -C /repo checkout -- .`  (the way the brief describes; only when nothing else is running).
Then: the demo must fail on the patched tree and pass on /repo; the replay named by the VIOLATION
line must fail on the patched tree and pass on /repo.  Writes seeded/<id>/result.json and prints a
one-line verdict per change.  The scratch copy is removed afterwards.
"""
import argparse
import json
import os
import re
import shutil
import subprocess
import sys
import time

VERIF = os.path.dirname(os.path.dirname(os.path.abspath(__file__)))
SEEDED = os.path.join(VERIF, "seeded")
PY = "/venv/bin/python"


def sh(cmd, **kw):
    return subprocess.run(cmd, capture_output=True, text=True, **kw)


def run_one(sid, tier, inplace, extra_props):
    d = os.path.join(SEEDED, sid)
    meta = json.load(open(os.path.join(d, "meta.json"), encoding="utf-8"))
    props = [meta["property"]] + [p for p in extra_props if p != meta["property"]]
    patch = os.path.join(d, "patch.diff")
    res = {"seeded": sid, "property": meta["property"], "tier": tier, "mode": "inplace" if inplace else "copy", "checks": {}}
    if inplace:
        tree = "/repo"
        p = sh(["git", "-C", "/repo", "apply", patch])
    else:
        tree = f"/tmp/seeded_run/{sid}"
        shutil.rmtree(tree, ignore_errors=True)
        os.makedirs(os.path.dirname(tree), exist_ok=True)
        sh(["rsync", "-a", "--exclude", ".git", "/repo/", tree + "/"])
        p = sh(["patch", "--no-backup-if-mismatch", "-p1", "-s", "-i", patch], cwd=tree)
    if p.returncode != 0:
        res["error"] = "patch does not apply: " + (p.stdout + p.stderr)[-500:]
        return res
    try:
        env = dict(os.environ, UNYT_REPO=tree, PYTHONPATH=tree, VERIF_EVIDENCE_DIR=os.path.join(VERIF, "build", "seeded_evidence"))
        demo = os.path.join(d, "demo.py")
        if os.path.exists(demo):
            r = sh([PY, "-W", "ignore", demo], cwd=tree, env=env, timeout=600)
            res["demo_on_patched_rc"] = r.returncode
        for prop in props:
            t0 = time.time()
            r = sh([os.path.join(VERIF, "vcheck"), prop, "--tier", tier], cwd=VERIF, env=env)
            out = r.stdout + r.stderr
            viol = re.findall(r"^VIOLATION property=(\S+) replay=(\S+)(.*)$", out, re.M)
            c = {"rc": r.returncode, "wall_s": round(time.time() - t0, 1), "violations": [list(v) for v in viol],
                 "tail": out[-1500:]}
            # replays: must fail on the patched tree, pass on /repo
            reps = []
            for _pid, path, tail in viol[:60]:
                if len(reps) >= 6 and any(x.get('on_patched_rc', 0) != 0 for x in reps):
                    break  # at least six replays tried and one of them fails on the changed tree
                if "no-failing-input-found" in tail:
                    reps.append({"path": path, "kind": "no-failing-input-found"})
                    continue
                a = sh([os.path.join(VERIF, "vcheck"), "--replay", path], cwd=VERIF, env=env)
                if inplace:
                    reps.append({"path": path, "on_patched_rc": a.returncode})
                else:
                    b = sh([os.path.join(VERIF, "vcheck"), "--replay", path], cwd=VERIF,
                           env=dict(os.environ, UNYT_REPO="/repo", PYTHONPATH="/repo"))
                    reps.append({"path": path, "on_patched_rc": a.returncode, "on_clean_rc": b.returncode})
            c["replays"] = reps
            res["checks"][prop] = c
    finally:
        if inplace:
            sh(["git", "-C", "/repo", "checkout", "--", "."])
        else:
            shutil.rmtree(tree, ignore_errors=True)
    if os.path.exists(os.path.join(d, "demo.py")):
        r = sh([PY, "-W", "ignore", os.path.join(d, "demo.py")], cwd="/repo", env=dict(os.environ, PYTHONPATH="/repo"), timeout=600)
        res["demo_on_clean_rc"] = r.returncode
    main = res["checks"].get(meta["property"], {})
    res["caught"] = bool(main.get("rc") == 1 and main.get("violations"))
    res["caught_with_input"] = bool(res["caught"] and any(r.get("on_patched_rc", 0) != 0 for r in main.get("replays", [])))
    return res


def main():
    ap = argparse.ArgumentParser()
    ap.add_argument("ids", nargs="*")
    ap.add_argument("--tier", default="quick")
    ap.add_argument("--inplace", action="store_true")
    ap.add_argument("--also", default="", help="comma-separated extra property ids to run against each change")
    a = ap.parse_args()
    ids = a.ids or sorted(x for x in os.listdir(SEEDED) if os.path.isdir(os.path.join(SEEDED, x)))
    extra = [x for x in a.also.split(",") if x]
    bad = 0
    for sid in ids:
        res = run_one(sid, a.tier, a.inplace, extra)
        with open(os.path.join(SEEDED, sid, f"result_{a.tier}.json"), "w", encoding="utf-8") as f:
            json.dump(res, f, indent=1, ensure_ascii=False)
        verdict = "CAUGHT+replay" if res.get("caught_with_input") else ("CAUGHT (no input)" if res.get("caught") else "MISSED")
        if res.get("error"):
            verdict = "ERROR " + res["error"][:100]
        print(f"{sid}: {verdict}  demo patched/clean rc={res.get('demo_on_patched_rc')}/{res.get('demo_on_clean_rc')}  "
              + " ".join(f"{p}:rc={c['rc']},{c['wall_s']}s" for p, c in res["checks"].items()))
        sys.stdout.flush()
        if not res.get("caught"):
            bad += 1
    # the runs above regenerated lean/UnytModel/Generated/* from the patched trees: restore the
    # tables of the unchanged tree
    subprocess.run([PY, "-W", "ignore", os.path.join(VERIF, "tools", "extract_tables.py")], cwd=VERIF,
                   env=dict(os.environ, UNYT_REPO="/repo", PYTHONPATH="/repo"), capture_output=True)
    sys.exit(1 if bad else 0)


if __name__ == "__main__":
    main()
