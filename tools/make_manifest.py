#!/usr/bin/env python3
"""Writes /verif/MANIFEST.json from the table below (kept in one place so the manifest stays
valid as checks are added)."""
import json
import os

VERIF = os.path.dirname(os.path.dirname(os.path.abspath(__file__)))

NOTE_COMMON = (
    "Trusted: Lean 4.33 kernel; axioms of every property theorem ⊆ {propext, Classical.choice, Quot.sound} "
    "(checked per run with #print axioms; no sorry/native_decide/bv_decide/own axioms); the translator "
    "tools/*.py (cross-checked by dump opcodes); the correspondence harness and the compiled model at Float "
    "(tolerance 2^-40); UnytModel/Ref/*. Modelled, not verified: sympy, NumPy kernels, CPython, IEEE-754 rounding."
)

CHECKS = {
    "C02": dict(
        technique="Lean 4: kernel-decided obligation over the regenerated unit table against a hand-written reference + general homomorphism theorems for expression evaluation + correspondence",
        text="Proof: (a) the unit table and prefix table are regenerated from /repo on every run and the Lean kernel decides (decide +kernel, at exact "
             "rationals of the stored doubles) that every row lies within the tolerance class of an independent hand-written definition (SI brochure, "
             "NIST SP 811, CODATA, IAU), has the reference dimension/offset, and that the prefix table is the SI table; (b) general theorems, for "
             "every table and any field with lawful rational powers: a prefixed look-up is prefix x base, a table key wins over a prefix reading, the "
             "write-back of derived entries never changes what any string resolves to, Unit(expr) computes the denotation of the expression, the "
             "denotation is a homomorphism for product / rational power and invariant under canonicalisation, unit arithmetic keeps (scale, dimension) "
             "in sync with the expression, and .to() multiplies by the ratio of scales. Tied to the code by the regenerated table, by dump opcodes, and by "
             "running Unit(...) in the model and in unyt on names and generated compounds; the direct oracle recomputes every compound from its constituents.",
        design_ref="§5 C02",
        note=NOTE_COMMON + " Rows nmi, kt, mp, Tsun, Mearth are outside their class on the unchanged tree (known findings; literal exclusion list with a "
             "kernel-checked counterexample theorem). `lat` has a negative scale, so the power-law theorems (positivity hypothesis) do not cover lat**q.",
    ),
    "C05": dict(
        technique="Lean 4 theorems (commutativity, associativity, identity, inverse, power laws, homomorphism, equality criterion over any field with lawful rational powers) + correspondence of Unit.__mul__/__truediv__/__pow__/__eq__ with the model",
        text="Proof: the algebraic laws of unit multiplication/division/rational powers, including the offset and logarithmic guards as explicit "
             "refusal cases, are Lean theorems about the model of Unit.__mul__/__truediv__/__pow__/__eq__/as_coeff_unit, for every unit value over "
             "any field whose rational-power operation satisfies the usual laws on positive elements. The model is tied to the code by running "
             "both on thousands of unit pairs (atomic exhaustively in the thorough tier, prefixed, compound, custom registry) and comparing scale, "
             "offset, dimension, normalised expression and refusals; the laws are also evaluated directly on the library (incl. hash equality and "
             "simplify()/as_coeff_unit()) as the failing-input search.",
        design_ref="§5 C05",
        note=NOTE_COMMON + " hash congruence and simplify() are covered by the direct oracle only (no theorem yet about the canonical-form uniqueness "
             "of sympy expressions); RPowLaws are hypotheses of the power-law theorems (proved for positive reals with Mathlib in UnytProofs/Real).",
    ),
    "C03": dict(
        technique="Lean 4 theorems (affine conversion laws over any char-0 field, route agreement) + correspondence of the hand model with unyt",
        text="Proof: identity/inverse/composition of the affine conversion rule (with the prefix-aware offset) and agreement of "
             "in_units/to_value/convert_to_units/manual routes are Lean theorems over an arbitrary field, symbolic in every scale and "
             "offset. The model is tied to the code by running getConversionFactor in the compiled model and in unyt on the same unit "
             "pairs, and the laws themselves are evaluated on the real library (all routes, dtypes, EM and offset families) as the "
             "failing-input search.",
        design_ref="§5 C03",
        note=NOTE_COMMON + " Theorems are over exact fields; floating-point rounding is bounded only by the harness tolerances. "
             "The EM (CGS<->SI) branch is covered by the direct law oracle and the EM table obligation, not by the general theorem.",
    ),
}

PENDING = {
}

ALL = [f"C{i:02d}" for i in range(1, 21)]


def main():
    checks = []
    for pid in ALL:
        if pid not in CHECKS:
            continue
        c = CHECKS[pid]
        checks.append(
            {
                "property_id": pid,
                "quick_cmd": f"./vcheck {pid} --tier quick",
                "thorough_cmd": f"./vcheck {pid} --tier thorough",
                "evidence_file": f"evidence/{pid}.json",
                "replay_cmd_template": "./vcheck --replay {path}",
                "engine": "lean-proof+correspondence",
                "level_claimed": {"category": c.get("category", "proof"), "text": c["text"], "design_ref": c["design_ref"]},
                "level_note": c["note"],
                "technique": c["technique"],
            }
        )
    na = []
    for pid in ALL:
        if pid not in CHECKS:
            na.append({"property_id": pid, "reason": PENDING.get(pid, "check not built yet in this session (no claim made); see DESIGN.md §5 for the planned Lean model and theorems")})
    m = {
        "version": 1,
        "setup_cmd": "./setup.sh",
        "hooks": {
            "guard": "UNYT_VERIF",
            "enable": "no source hooks are needed: caches, dispatch tables and handler calls are observable from outside; checks import unyt from /repo's working tree (editable install in /venv)",
            "baseline_off_cmd": "cd /repo && /venv/bin/python -m pytest -ra -q -p no:cacheprovider --timeout=900 --continue-on-collection-errors",
            "source_commits": [],
            "add_only": True,
        },
        "engines": [
            {
                "name": "lean-proof+correspondence",
                "path": "lean/ (UnytModel: executable model, UnytProofs: theorems), tools/ (translator), harness/ (correspondence, failing-input search)",
                "serves_properties": [c["property_id"] for c in checks],
                "kind_free_text": "machine-checked proof in Lean 4 about a model regenerated from / validated against the source on every run",
            }
        ],
        "checks": checks,
        "not_applicable": na,
        "notes": "See DESIGN.md. quick = extract + lake build of the property's proof modules + axiom audit + correspondence; "
                 "thorough = deeper enumerations + leanchecker re-check. Known genuine defects are in known_findings.json.",
    }
    with open(os.path.join(VERIF, "MANIFEST.json"), "w", encoding="utf-8") as f:
        json.dump(m, f, indent=1, ensure_ascii=False)
        f.write("\n")


if __name__ == "__main__":
    main()
