#!/usr/bin/env python3
"""Writes /verif/MANIFEST.json from the table below (kept in one place so the manifest stays
valid as checks are added)."""
import json
import os

VERIF = os.path.dirname(os.path.dirname(os.path.abspath(__file__)))

NOTE_COMMON = (
    "Trusted: Lean 4.33 kernel; axioms of every property theorem ⊆ {propext, Classical.choice, Quot.sound} "
    "(checked per run with #print axioms; no sorry/native_decide/bv_decide/own axioms); the translator "
    "tools/*.py (cross-checked by dump opcodes); the correspondence harness and the compiled model at Float "
    "(tolerance 2^-40); UnytModel/Ref/*. Modelled, not verified: sympy, NumPy kernels, CPython, IEEE-754 rounding."
)

def load_checks():
    """manifest.d/Cnn.json: {technique, text, design_ref, note_extra, [category]} — one file per
    claimed property (so that checks can be added independently)."""
    out = {}
    d = os.path.join(VERIF, "manifest.d")
    for fn in sorted(os.listdir(d)):
        if fn.endswith(".json"):
            c = json.load(open(os.path.join(d, fn), encoding="utf-8"))
            c["note"] = (NOTE_COMMON + " " + c.get("note_extra", "")).strip()
            out[fn[:-5]] = c
    return out


CHECKS = load_checks()

PENDING = {
}

ALL = [f"C{i:02d}" for i in range(1, 21)]


def main():
    checks = []
    for pid in ALL:
        if pid not in CHECKS:
            continue
        c = CHECKS[pid]
        checks.append(
            {
                "property_id": pid,
                "quick_cmd": f"./vcheck {pid} --tier quick",
                "thorough_cmd": f"./vcheck {pid} --tier thorough",
                "evidence_file": f"evidence/{pid}.json",
                "replay_cmd_template": "./vcheck --replay {path}",
                "engine": "lean-proof+correspondence",
                "level_claimed": {"category": c.get("category", "proof"), "text": c["text"], "design_ref": c["design_ref"]},
                "level_note": c["note"],
                "technique": c["technique"],
            }
        )
    na = []
    for pid in ALL:
        if pid not in CHECKS:
            na.append({"property_id": pid, "reason": PENDING.get(pid, "check not built yet in this session (no claim made); see DESIGN.md §5 for the planned Lean model and theorems")})
    m = {
        "version": 1,
        "setup_cmd": "./setup.sh",
        "hooks": {
            "guard": "UNYT_VERIF",
            "enable": "no source hooks are needed: caches, dispatch tables and handler calls are observable from outside; checks import unyt from /repo's working tree (editable install in /venv)",
            "baseline_off_cmd": "cd /repo && /venv/bin/python -m pytest -ra -q -p no:cacheprovider --timeout=900 --continue-on-collection-errors",
            "source_commits": [],
            "add_only": True,
        },
        "engines": [
            {
                "name": "lean-proof+correspondence",
                "path": "lean/ (UnytModel: executable model, UnytProofs: theorems), tools/ (translator), harness/ (correspondence, failing-input search)",
                "serves_properties": [c["property_id"] for c in checks],
                "kind_free_text": "machine-checked proof in Lean 4 about a model regenerated from / validated against the source on every run",
            }
        ],
        "checks": checks,
        "not_applicable": na,
        "notes": "See DESIGN.md. quick = extract + lake build of the property's proof modules + axiom audit + correspondence; "
                 "thorough = deeper enumerations + leanchecker re-check. Known genuine defects are in known_findings.json.",
    }
    with open(os.path.join(VERIF, "MANIFEST.json"), "w", encoding="utf-8") as f:
        json.dump(m, f, indent=1, ensure_ascii=False)
        f.write("\n")


if __name__ == "__main__":
    main()
