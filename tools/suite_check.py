#!/venv/bin/python
"""maintainer helper: run unyt's own suite in a tree (default /repo) and compare with the
pinned baseline (/root/.vp/BASELINE.json stable_pass).  exit 0 iff every stable-pass test passes."""
import json, os, subprocess, sys, tempfile, xml.etree.ElementTree as ET
tree = os.path.abspath(sys.argv[1]) if len(sys.argv) > 1 else "/repo"
base = json.load(open("/root/.vp/BASELINE.json"))
want = set(base["stable_pass"])
with tempfile.TemporaryDirectory() as d:
    x = os.path.join(d, "j.xml")
    env = dict(os.environ, PYTHONPATH=tree)
    subprocess.run(["/venv/bin/python", "-m", "pytest", "-q", "-p", "no:cacheprovider", "--timeout=900",
                    "--continue-on-collection-errors", f"--junitxml={x}"], cwd=tree, env=env,
                   stdout=subprocess.DEVNULL, stderr=subprocess.DEVNULL)
    got = set()
    for tc in ET.parse(x).getroot().iter("testcase"):
        if not any(c.tag in ("failure", "error", "skipped") for c in tc):
            got.add(f"{tc.get('classname')}::{tc.get('name')}")
missing = sorted(want - got)
print(f"suite: {len(got)} passed; baseline stable_pass {len(want)}; baseline tests not passing: {len(missing)}")
for m in missing[:20]:
    print("  NOT PASSING:", m)
sys.exit(1 if missing else 0)
