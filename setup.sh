#!/bin/bash
# fresh-restore build, offline: regenerate the model tables from /repo, build the Lean
# model, the proofs and the compiled driver.
set -e
cd "$(dirname "$0")"
/venv/bin/python -W ignore tools/extract_tables.py
cd lean
lake build 2>&1 | grep -v '^✔' | tail -40
test -x .lake/build/bin/unytmodel
echo "setup: ok"
