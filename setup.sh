#!/bin/bash
# fresh-restore build, offline: regenerate the model tables from /repo, build the Lean
# model, the proofs and the compiled drivers.  A property whose model or proofs do not build
# does not stop the others (its own check reports it).
cd "$(dirname "$0")"
/venv/bin/python -W ignore tools/extract_tables.py || echo "setup: translator reported failures (the affected checks will report them)"
cd lean
exes="unytmodel $(sed -n 's/^name = "\(drv_c[0-9]*\)"$/\1/p' lakefile.toml | tr '\n' ' ')"
flock .build.lock lake build 2>&1 | grep -v '^✔\|^ℹ\|^info' | tail -40
for e in $exes; do
  flock .build.lock lake build "$e" 2>&1 | grep -v '^✔\|^ℹ\|^info\|Build completed' | tail -5
done
test -x .lake/build/bin/unytmodel || { echo "setup: FAILED (shared driver not built)"; exit 1; }
echo "setup: ok"
